//! C16 harness: ACL and hop-pattern path policies of sciparse against spec/PathPolicy.
//!
//! replay <cases.ndjson> <result.json>
//!     cases printed by MC_PathPolicy (kinds hopmatch / acl / pattern / tokens) with the expected
//!     verdict vectors; every policy is built through the constructors where the API has them
//!     (HopPredicate, AclPolicy) AND through the parsers from several printed forms (minimal
//!     parentheses, fully parenthesised, random white space, colon-hex AS); hop sequences are given as
//!     PathPolicyHop values and, where expressible, as ScionPaths with interface metadata
//!     (PathPolicy::path_allowed).  P-monitors on the real outputs: verdict == spec, predicate
//!     print->parse round trip, variants agree, no panic, every case under a watchdog.
//! record <trace.ndjson> <result.json>
//!     seeded random deeper patterns / ACLs / token strings with real verdicts for Trace_PathPolicy,
//!     plus random character strings for parser totality (judged here: no panic, terminates).
use std::str::FromStr;
use std::sync::mpsc;
use std::time::Duration;

use sciparse::dataplane_path::view::ScionDpPathView;
use sciparse::identifier::asn::Asn;
use sciparse::identifier::isd::Isd;
use sciparse::identifier::isd_asn::IsdAsn;
use sciparse::path::ScionPath;
use sciparse::path::metadata::{PathMetadata, path_interface::PathInterface};
use sciparse::path::policy::acl::{AclEntry, AclEntryOperator, AclPolicy};
use sciparse::path::policy::hop_pattern::HopPatternPolicy;
use sciparse::path::policy::types::{HopPredicate, InterfacesPredicate, PathPolicyHop};
use sciparse::path::policy::{PathPolicy, Policy, WeightedPolicies};
use serde_json::{Value, json};
use vh_core::{NdjsonWriter, Rng};

const NONE_AS: u64 = 1_000_000;
const WATCHDOG: Duration = Duration::from_secs(20);

// ------------------------------------------------------------------------------------------
// JSON <-> values
// ------------------------------------------------------------------------------------------
#[derive(Clone, Debug, PartialEq)]
struct P {
    isd: u16,
    asn: Option<u64>,
    ik: String,
    a: u16,
    b: u16,
}
fn p_from(v: &Value) -> P {
    let asn = v["as"].as_u64().unwrap_or(NONE_AS);
    P {
        isd: v["isd"].as_u64().unwrap_or(0) as u16,
        asn: if asn == NONE_AS { None } else { Some(asn) },
        ik: v["ik"].as_str().unwrap_or("any").to_string(),
        a: v["a"].as_u64().unwrap_or(0) as u16,
        b: v["b"].as_u64().unwrap_or(0) as u16,
    }
}
fn p_json(p: &P) -> Value {
    json!({"isd": p.isd, "as": p.asn.unwrap_or(NONE_AS), "ik": p.ik, "a": p.a, "b": if p.ik == "both" { p.b } else { 0 }})
}
fn p_build(p: &P) -> HopPredicate {
    let ifs = match p.ik.as_str() {
        "either" => InterfacesPredicate::either(p.a),
        "both" => InterfacesPredicate::both(p.a, p.b),
        _ => InterfacesPredicate::any(),
    };
    HopPredicate::new(Isd(p.isd), p.asn.map(Asn), ifs)
}
/// documented text form `ISD[-AS[#IF[,IF]]]`; None when the value has no text form (interfaces without AS)
fn p_text(p: &P, hex_as: bool) -> Option<String> {
    let mut s = p.isd.to_string();
    match p.asn {
        Some(a) => {
            if hex_as {
                s.push_str(&format!("-{:x}:{:x}:{:x}", (a >> 32) & 0xffff, (a >> 16) & 0xffff, a & 0xffff));
            } else {
                s.push_str(&format!("-{a}"));
            }
        }
        None if p.ik != "any" => return None,
        None => {}
    }
    match p.ik.as_str() {
        "either" => s.push_str(&format!("#{}", p.a)),
        "both" => s.push_str(&format!("#{},{}", p.a, p.b)),
        _ => {}
    }
    Some(s)
}
fn norm_pred(h: HopPredicate) -> HopPredicate {
    HopPredicate { asn: Some(h.asn.unwrap_or(Asn::WILDCARD)), ..h }
}
fn hop_from(v: &Value) -> PathPolicyHop {
    PathPolicyHop {
        isd_asn: IsdAsn::new(Isd(v["isd"].as_u64().unwrap_or(0) as u16), Asn(v["as"].as_u64().unwrap_or(0))),
        ingress: v["in"].as_u64().unwrap_or(0) as u16,
        egress: v["eg"].as_u64().unwrap_or(0) as u16,
    }
}
fn hop_json(h: &PathPolicyHop) -> Value {
    json!({"isd": h.isd_asn.isd().to_u16(), "as": h.isd_asn.asn().to_u64(), "in": h.ingress, "eg": h.egress})
}
/// a hop sequence is expressible as a path when the first hop has no ingress and the last no egress
fn path_of(w: &[PathPolicyHop]) -> Option<ScionPath> {
    if w.len() < 2 || w[0].ingress != 0 || w[w.len() - 1].egress != 0 {
        return None;
    }
    let mut ifs = Vec::new();
    for (k, h) in w.iter().enumerate() {
        if k > 0 {
            ifs.push(PathInterface { isd_asn: h.isd_asn, id: h.ingress });
        }
        if k + 1 < w.len() {
            ifs.push(PathInterface { isd_asn: h.isd_asn, id: h.egress });
        }
    }
    Some(ScionPath::new(w[0].isd_asn, w[w.len() - 1].isd_asn, ScionDpPathView::Empty, Some(PathMetadata::new_minimal(0, 0, ifs)), None))
}

// expression AST (mirror of the specification's records)
#[derive(Clone, Debug, PartialEq)]
enum E {
    Pred(P),
    Or(Box<E>, Box<E>),
    Post(&'static str, Box<E>), // "opt" | "plus" | "star"
}
fn e_from(v: &Value) -> E {
    match v["t"].as_str().unwrap_or("") {
        "p" => E::Pred(p_from(&v["p"])),
        "or" => E::Or(Box::new(e_from(&v["a"])), Box::new(e_from(&v["b"]))),
        "opt" => E::Post("opt", Box::new(e_from(&v["a"]))),
        "plus" => E::Post("plus", Box::new(e_from(&v["a"]))),
        _ => E::Post("star", Box::new(e_from(&v["a"]))),
    }
}
fn e_json(e: &E) -> Value {
    match e {
        E::Pred(p) => json!({"t": "p", "p": p_json(p)}),
        E::Or(a, b) => json!({"t": "or", "a": e_json(a), "b": e_json(b)}),
        E::Post(t, a) => json!({"t": t, "a": e_json(a)}),
    }
}
fn post_char(t: &str) -> &'static str {
    match t {
        "opt" => "?",
        "plus" => "+",
        _ => "*",
    }
}
/// style 0: minimal parentheses; 1: every operand parenthesised (as the spec's ShowE);
/// 2: everything parenthesised, atoms too, doubled around alternations
fn e_text(e: &E, style: u8, sep: &mut dyn FnMut() -> String, hex: bool, top: bool) -> String {
    let paren = |s: String, sep: &mut dyn FnMut() -> String| format!("({}{}{})", sep(), s, sep());
    match e {
        E::Pred(p) => {
            let t = p_text(p, hex).expect("pattern predicates have a text form");
            if style == 2 { paren(t, sep) } else { t }
        }
        E::Or(a, b) => {
            let l = e_text(a, style, sep, hex, false);
            let r = e_text(b, style, sep, hex, false);
            let l = if style >= 1 && !matches!(**a, E::Pred(_)) { paren(l, sep) } else { l };
            let r = if (style >= 1 && !matches!(**b, E::Pred(_))) || matches!(**b, E::Or(..)) { paren(r, sep) } else { r };
            let s = format!("{l}{}|{}{r}", sep(), sep());
            if style == 2 || (style == 1 && top) { paren(s, sep) } else { s }
        }
        E::Post(t, a) => {
            let inner = e_text(a, style, sep, hex, false);
            let inner = if matches!(**a, E::Or(..)) || (style >= 1 && !matches!(**a, E::Pred(_))) { paren(inner, sep) } else { inner };
            format!("{inner}{}{}", sep(), post_char(t))
        }
    }
}
fn pat_text(pat: &[E], style: u8, sep: &mut dyn FnMut() -> String, hex: bool) -> String {
    let mut s = sep();
    for (k, e) in pat.iter().enumerate() {
        if k > 0 {
            s.push(' ');
            s.push_str(&sep());
        }
        s.push_str(&e_text(e, style, sep, hex, true));
    }
    s.push_str(&sep());
    s
}

// ------------------------------------------------------------------------------------------
// calls into the code under test (panics are data)
// ------------------------------------------------------------------------------------------
#[derive(Default)]
struct Mon {
    evals: u64,
    pv: Vec<Value>,
    per_key: std::collections::BTreeMap<String, u64>,
}
impl Mon {
    /// at most 5 reports per canonical key are kept (all are counted)
    fn pv(&mut self, key: String, what: String, replay: Value) {
        let n = self.per_key.entry(key.clone()).or_insert(0);
        *n += 1;
        if *n <= 5 {
            self.pv.push(json!({"key": key, "what": what, "replay": replay}));
        }
    }
    fn merge(&mut self, other: Mon) {
        self.evals += other.evals;
        for p in other.pv {
            let key = p["key"].as_str().unwrap_or("").to_string();
            let n = self.per_key.entry(key).or_insert(0);
            *n += 1;
            if *n <= 5 {
                self.pv.push(p);
            }
        }
    }
}
fn parse_pattern(m: &mut Mon, text: &str) -> Option<HopPatternPolicy> {
    match vh_core::catch(|| HopPatternPolicy::parse(text)) {
        Ok(Ok(p)) => Some(p),
        Ok(Err(e)) => {
            // the error report is part of the parser's public surface: it must not panic either
            if let Err(msg) = vh_core::catch(|| e.report(text)) {
                m.pv("Panic:report".into(), format!("ParseError::report panics for pattern text {text:?}: {msg}"), json!({"kind": "text", "text": text}));
            }
            None
        }
        Err(msg) => {
            m.pv("Panic:parse".into(), format!("HopPatternPolicy::parse panics on {text:?}: {msg}"), json!({"kind": "text", "text": text}));
            None
        }
    }
}
/// verdict of a policy on hops through `matches`, `Policy::matches` and (when expressible) `path_allowed`;
/// returns the `matches` verdict, reports disagreement between the routes
fn pat_verdict(m: &mut Mon, pol: &HopPatternPolicy, w: &[PathPolicyHop], ctx: &Value) -> Option<bool> {
    m.evals += 1;
    let r = match vh_core::catch(|| pol.matches(w)) {
        Ok(b) => b,
        Err(msg) => {
            m.pv("Panic:match".into(), format!("HopPatternPolicy::matches panics: {msg}"), ctx.clone());
            return None;
        }
    };
    let r2 = vh_core::catch(|| Policy::new(None, Some(pol.clone())).matches(w));
    if r2 != Ok(r) {
        m.pv("Routes:policy".into(), format!("Policy::matches {r2:?} differs from HopPatternPolicy::matches {r}"), ctx.clone());
    }
    if let Some(path) = path_of(w) {
        match vh_core::catch(|| pol.path_allowed(&path)) {
            Ok(Ok(b)) if b == r => {}
            other => m.pv("Routes:path".into(), format!("path_allowed {other:?} differs from matches {r} on the same hops"), ctx.clone()),
        }
    }
    Some(r)
}
fn acl_verdict(m: &mut Mon, acl: &AclPolicy, w: &[PathPolicyHop], ctx: &Value) -> Option<bool> {
    m.evals += 1;
    let r = match vh_core::catch(|| acl.matches(w)) {
        Ok(b) => b,
        Err(msg) => {
            m.pv("Panic:acl".into(), format!("AclPolicy::matches panics: {msg}"), ctx.clone());
            return None;
        }
    };
    let r2 = vh_core::catch(|| Policy::new(Some(acl.clone()), None).matches(w));
    if r2 != Ok(r) {
        m.pv("Routes:policy".into(), format!("Policy::matches {r2:?} differs from AclPolicy::matches {r}"), ctx.clone());
    }
    if let Some(path) = path_of(w) {
        match vh_core::catch(|| acl.path_allowed(&path)) {
            Ok(Ok(b)) if b == r => {}
            other => m.pv("Routes:path".into(), format!("path_allowed {other:?} differs from matches {r} on the same hops"), ctx.clone()),
        }
    }
    Some(r)
}

fn w_list(h: &[PathPolicyHop], wlen: usize) -> Vec<Vec<PathPolicyHop>> {
    // same order as WList of MC_PathPolicy: by length, then base-|H| numbers, most significant first
    let mut out = Vec::new();
    for n in 0..=wlen {
        let total = h.len().pow(n as u32);
        for x in 0..total {
            let mut w = Vec::with_capacity(n);
            for d in 1..=n {
                w.push(h[(x / h.len().pow((n - d) as u32)) % h.len()]);
            }
            out.push(w);
        }
    }
    out
}
fn bits(v: &Value) -> Vec<bool> {
    v.as_array().map(|a| a.iter().map(|x| x.as_u64() == Some(1)).collect()).unwrap_or_default()
}
fn w_json(w: &[PathPolicyHop]) -> Value {
    Value::Array(w.iter().map(hop_json).collect())
}

struct AclV {
    entries: Vec<(bool, P)>,
    def: bool,
}
fn acl_from(v: &Value) -> AclV {
    AclV {
        entries: v["entries"].as_array().map(|a| a.iter().map(|e| (e["op"].as_str() == Some("+"), p_from(&e["p"]))).collect()).unwrap_or_default(),
        def: v["def"].as_str() == Some("+"),
    }
}
fn acl_json(a: &AclV) -> Value {
    json!({"entries": a.entries.iter().map(|(o, p)| json!({"op": if *o { "+" } else { "-" }, "p": p_json(p)})).collect::<Vec<_>>(), "def": if a.def { "+" } else { "-" }})
}
fn op(b: bool) -> AclEntryOperator {
    if b { AclEntryOperator::Allow } else { AclEntryOperator::Deny }
}
fn acl_build(a: &AclV) -> AclPolicy {
    AclPolicy::new_from_entries(op(a.def), a.entries.iter().map(|(o, p)| AclEntry::new(op(*o), p_build(p))))
}
fn p_is_wildcard(p: &P) -> bool {
    p.isd == 0 && p.asn.unwrap_or(0) == 0 && (p.ik == "any" || (p.ik == "either" && p.a == 0) || (p.ik == "both" && p.a == 0 && p.b == 0))
}
/// text forms `op pred op pred ... default`; None when an entry predicate is the wildcard (the
/// ACL language reserves it for the final default entry) or has no text form
fn acl_texts(a: &AclV) -> Option<Vec<String>> {
    let mut s = String::new();
    for (o, p) in &a.entries {
        if p_is_wildcard(p) {
            return None;
        }
        s.push_str(&format!("{} {} ", if *o { "+" } else { "-" }, p_text(p, false)?));
    }
    let d = if a.def { "+" } else { "-" };
    Some(vec![format!("{s}{d}"), format!("{s}{d} 0"), format!("  {}\t{d} 0-0#0,0\n", s.replace(' ', "  "))])
}

// ------------------------------------------------------------------------------------------
// replay of MC_PathPolicy cases
// ------------------------------------------------------------------------------------------
fn check_vector(m: &mut Mon, key_prefix: &str, what: &str, expected: &[bool], got: &[Option<bool>], ws: &[Vec<PathPolicyHop>], policy: &Value) -> u64 {
    let mut bad = 0;
    for (x, (e, g)) in expected.iter().zip(got).enumerate() {
        if let Some(g) = g {
            if g != e {
                bad += 1;
                let key = if key_prefix == "Acl" && ws[x].is_empty() { "AclEmptyPath:default-deny".to_string() } else { format!("{key_prefix}:verdict") };
                m.pv(key, format!("{what}: hops {} -> real {g}, specification {e}", w_json(&ws[x])), json!({"policy": policy, "w": w_json(&ws[x]), "real": g, "spec": e}));
            }
        }
    }
    bad
}

fn replay_case(line: &Value, hs: &[PathPolicyHop], hopdom: &[PathPolicyHop], wlen: usize, m: &mut Mon, stats: &mut serde_json::Map<String, Value>, rng: &mut Rng) {
    let mut bump = |k: &str, n: u64| {
        let e = stats.entry(k.to_string()).or_insert(json!(0));
        *e = json!(e.as_u64().unwrap_or(0) + n);
    };
    let expected = bits(&line["v"]);
    match line["kind"].as_str().unwrap_or("") {
        "hopmatch" => {
            let p = p_from(&line["p"]);
            let built = p_build(&p);
            let got: Vec<Option<bool>> = hopdom.iter().map(|h| vh_core::catch(|| h.matches(&built)).ok()).collect();
            m.evals += hopdom.len() as u64;
            let ws: Vec<Vec<PathPolicyHop>> = hopdom.iter().map(|h| vec![*h]).collect();
            check_vector(m, "HopMatch", &format!("predicate {:?}", p_json(&p)), &expected, &got, &ws, &p_json(&p));
            // print -> parse round trip of the predicate value
            let shown = built.to_string();
            match vh_core::catch(|| HopPredicate::from_str(&shown)) {
                // reading adopted: a predicate without AS and one with the AS wildcard are the same predicate
                Ok(Ok(back)) if back == built || norm_pred(back) == norm_pred(built) => bump("pred_roundtrip_ok", 1),
                other => {
                    let key = if p.asn.is_none() && p.ik != "any" { "RoundTrip:predicate-interfaces-without-as" } else { "RoundTrip:predicate" };
                    m.pv(key.into(), format!("hop predicate {built:?} prints as {shown:?}, which parses back to {other:?}"), json!({"pred": p_json(&p), "shown": shown}));
                }
            }
            // parser route from the documented text forms
            for hex in [false, true] {
                if let Some(t) = p_text(&p, hex) {
                    match vh_core::catch(|| HopPredicate::from_str(&t)) {
                        Ok(Ok(parsed)) => {
                            let got: Vec<Option<bool>> = hopdom.iter().map(|h| vh_core::catch(|| h.matches(&parsed)).ok()).collect();
                            m.evals += hopdom.len() as u64;
                            check_vector(m, "HopMatch", &format!("predicate text {t:?}"), &expected, &got, &ws, &json!({"text": t}));
                            bump("pred_parsed", 1);
                        }
                        Ok(Err(_)) => bump("pred_text_rejected", 1),
                        Err(msg) => m.pv("Panic:predicate".into(), format!("HopPredicate::from_str panics on {t:?}: {msg}"), json!({"text": t})),
                    }
                }
            }
        }
        "hops" => {
            // hop extraction from path metadata: PathPolicyHop::hops_from_path
            let ifs: Vec<PathInterface> = line["ifs"].as_array().map(|a| a.iter().map(|i| PathInterface {
                isd_asn: IsdAsn::new(Isd(i["ia"]["isd"].as_u64().unwrap_or(0) as u16), Asn(i["ia"]["as"].as_u64().unwrap_or(0))),
                id: i["id"].as_u64().unwrap_or(0) as u16,
            }).collect()).unwrap_or_default();
            let spec_ok = line["ok"].as_bool().unwrap_or(false);
            let spec_hops: Vec<PathPolicyHop> = line["hops"].as_array().map(|a| a.iter().map(hop_from).collect()).unwrap_or_default();
            let src = ifs.first().map(|i| i.isd_asn).unwrap_or(IsdAsn(0));
            let dst = ifs.last().map(|i| i.isd_asn).unwrap_or(IsdAsn(0));
            let path = ScionPath::new(src, dst, ScionDpPathView::Empty, Some(PathMetadata::new_minimal(0, 0, ifs)), None);
            m.evals += 1;
            let ctx = json!({"ifs": line["ifs"], "spec": {"ok": spec_ok, "hops": line["hops"]}});
            match vh_core::catch(|| PathPolicyHop::hops_from_path(&path)) {
                Err(msg) => m.pv("Panic:hops".into(), format!("hops_from_path panics: {msg}"), ctx),
                Ok(Ok(h)) if spec_ok => {
                    if h != spec_hops {
                        m.pv("Hops:extraction".into(), format!("hops_from_path yields {:?}, the interface list denotes {}", h.iter().map(hop_json).collect::<Vec<_>>(), line["hops"]), ctx);
                    } else {
                        bump("hops_extracted", 1);
                    }
                }
                Ok(Err(e)) if spec_ok => m.pv("Hops:extraction".into(), format!("hops_from_path rejects a well-formed interface list: {e}"), ctx),
                Ok(Ok(_)) => bump("hops_malformed_accepted", 1), // no hops denoted; not a property violation
                Ok(Err(_)) => bump("hops_malformed_rejected", 1),
            }
        }
        "acl" => {
            let a = acl_from(&line["acl"]);
            let ws = w_list(hs, wlen);
            let ws = &ws[..expected.len().min(ws.len())];
            let pj = acl_json(&a);
            let built = acl_build(&a);
            let got: Vec<Option<bool>> = ws.iter().map(|w| acl_verdict(m, &built, w, &json!({"acl": pj, "w": w_json(w)}))).collect();
            check_vector(m, "Acl", &format!("ACL {pj} (constructors)"), &expected, &got, ws, &pj);
            if let Some(texts) = acl_texts(&a) {
                for t in texts {
                    match vh_core::catch(|| AclPolicy::parse(&t)) {
                        Ok(Ok(parsed)) => {
                            bump("acl_parsed", 1);
                            let got: Vec<Option<bool>> = ws.iter().map(|w| acl_verdict(m, &parsed, w, &json!({"acl_text": t, "w": w_json(w)}))).collect();
                            check_vector(m, "Acl", &format!("ACL text {t:?}"), &expected, &got, ws, &json!({"acl_text": t}));
                        }
                        Ok(Err(_)) => bump("acl_text_rejected", 1),
                        Err(msg) => m.pv("Panic:acl-parse".into(), format!("AclPolicy::parse panics on {t:?}: {msg}"), json!({"text": t})),
                    }
                }
            } else {
                bump("acl_without_text_form", 1);
            }
        }
        "pattern" => {
            let pat: Vec<E> = line["pat"].as_array().map(|a| a.iter().map(e_from).collect()).unwrap_or_default();
            let pj = Value::Array(pat.iter().map(e_json).collect());
            let ws = w_list(hs, wlen);
            let ws = &ws[..expected.len().min(ws.len())];
            let mut vectors: Vec<(String, Vec<Option<bool>>)> = Vec::new();
            let mut r2 = rng.clone();
            let mut nosep = || String::new();
            let mut rsep = move || match r2.below(5) {
                0 => " ".to_string(),
                1 => "\t".to_string(),
                2 => "\n ".to_string(),
                _ => String::new(),
            };
            let texts = vec![
                pat_text(&pat, 0, &mut nosep, false),
                pat_text(&pat, 1, &mut nosep, false),
                pat_text(&pat, 2, &mut rsep, false),
                pat_text(&pat, 0, &mut rsep, true),
            ];
            for t in texts {
                match parse_pattern(m, &t) {
                    Some(pol) => {
                        bump("pattern_texts_parsed", 1);
                        let got: Vec<Option<bool>> = ws.iter().map(|w| pat_verdict(m, &pol, w, &json!({"pattern_text": t, "w": w_json(w)}))).collect();
                        check_vector(m, "Lang", &format!("pattern {t:?}"), &expected, &got, ws, &json!({"pattern_text": t, "pat": pj}));
                        vectors.push((t, got));
                    }
                    None => {
                        m.pv("Reject:pattern".into(), format!("the printed form {t:?} of a pattern is rejected by the parser"), json!({"kind": "text", "text": t, "pat": pj}));
                    }
                }
            }
            for (t, v) in vectors.iter().skip(1) {
                if *v != vectors[0].1 {
                    m.pv("Variants:verdicts".into(), format!("{:?} and {t:?} differ only in parentheses/white space but give different verdicts", vectors[0].0), json!({"a": vectors[0].0, "b": t}));
                }
            }
        }
        "tokens" => {
            let toks: Vec<Value> = line["ts"].as_array().cloned().unwrap_or_default();
            let spec_ok = line["ok"].as_bool().unwrap_or(false);
            let ws = w_list(hs, wlen);
            let ws = &ws[..expected.len().min(ws.len())];
            let (spaced, tight) = tok_texts(&toks);
            for t in [spaced, tight] {
                let real = parse_pattern(m, &t);
                match (real, spec_ok) {
                    (Some(pol), true) => {
                        bump("token_strings_accepted", 1);
                        let got: Vec<Option<bool>> = ws.iter().map(|w| pat_verdict(m, &pol, w, &json!({"pattern_text": t, "w": w_json(w)}))).collect();
                        check_vector(m, "Lang", &format!("pattern {t:?}"), &expected, &got, ws, &json!({"pattern_text": t}));
                    }
                    (Some(_), false) => m.pv("Unsound:pattern".into(), format!("the parser accepts {t:?}, which is not in the documented pattern syntax"), json!({"kind": "text", "text": t})),
                    (None, true) => m.pv("Reject:pattern".into(), format!("the parser rejects {t:?}, which is in the documented pattern syntax"), json!({"kind": "text", "text": t})),
                    (None, false) => bump("token_strings_rejected", 1),
                }
            }
        }
        _ => {}
    }
}

/// (tokens separated by blanks, tokens without separators except between adjacent predicates)
fn tok_texts(toks: &[Value]) -> (String, String) {
    let mut spaced = String::new();
    let mut tight = String::new();
    let mut prev_pred = false;
    for t in toks {
        let k = t["k"].as_str().unwrap_or("");
        let s = match k {
            "p" => p_text(&p_from(&t["p"]), false).unwrap_or_else(|| "0".into()),
            "or" => "|".into(),
            "opt" => "?".into(),
            "plus" => "+".into(),
            "star" => "*".into(),
            "lp" => "(".into(),
            "bang" => "!".into(),
            "and" => "&".into(),
            _ => ")".to_string(),
        };
        if !spaced.is_empty() {
            spaced.push(' ');
        }
        spaced.push_str(&s);
        if prev_pred && k == "p" {
            tight.push(' ');
        }
        tight.push_str(&s);
        prev_pred = k == "p";
    }
    (spaced, tight)
}

/// Run `f` over all items on a worker thread (one long-lived thread, not one per item); an item whose
/// evaluation does not come back within the watchdog yields None, the worker is abandoned and a new
/// one continues with the next item.
fn run_batch<I: Send + Sync + 'static, R: Send + 'static>(items: Vec<I>, f: fn(&I) -> R) -> Vec<Option<R>> {
    let items = std::sync::Arc::new(items);
    let mut out: Vec<Option<R>> = (0..items.len()).map(|_| None).collect();
    let mut start = 0;
    while start < items.len() {
        let (tx, rx) = mpsc::channel();
        let it = items.clone();
        let from = start;
        let spawned = std::thread::Builder::new().stack_size(256 << 20).spawn(move || {
            for k in from..it.len() {
                let r = f(&it[k]);
                if tx.send((k, r)).is_err() {
                    return;
                }
            }
        });
        if spawned.is_err() {
            eprintln!("cannot spawn worker thread");
            std::process::exit(2);
        }
        let mut next = start;
        loop {
            match rx.recv_timeout(WATCHDOG) {
                Ok((k, r)) => {
                    out[k] = Some(r);
                    next = k + 1;
                    if next == items.len() {
                        break;
                    }
                }
                Err(_) => {
                    next += 1; // item `next` hangs (or the worker died): leave None, continue after it
                    break;
                }
            }
        }
        start = next;
    }
    out
}

struct ReplayItem {
    line: Value,
    hs: Vec<PathPolicyHop>,
    hopdom: Vec<PathPolicyHop>,
    wlen: usize,
    seed: u64,
}
fn replay_item(it: &ReplayItem) -> (Mon, serde_json::Map<String, Value>) {
    let mut m = Mon::default();
    let mut st = serde_json::Map::new();
    let mut rng = Rng::new(it.seed);
    replay_case(&it.line, &it.hs, &it.hopdom, it.wlen, &mut m, &mut st, &mut rng);
    (m, st)
}

fn replay(cases_path: &str, out_path: &str) {
    let lines = vh_core::read_ndjson(cases_path);
    let mut m = Mon::default();
    let mut stats = serde_json::Map::new();
    let mut hs: Vec<PathPolicyHop> = Vec::new();
    let mut hopdom: Vec<PathPolicyHop> = Vec::new();
    let mut wlen = 0usize;
    let mut rng = Rng::from_env();
    let mut items: Vec<ReplayItem> = Vec::new();
    for line in lines {
        if line.get("H").is_some() {
            hs = line["H"].as_array().map(|a| a.iter().map(hop_from).collect()).unwrap_or_default();
            hopdom = line["hops"].as_array().map(|a| a.iter().map(hop_from).collect()).unwrap_or_default();
            wlen = line["wlen"].as_u64().unwrap_or(0) as usize;
            continue;
        }
        items.push(ReplayItem { line, hs: hs.clone(), hopdom: hopdom.clone(), wlen, seed: rng.next_u64() });
    }
    let cases = items.len() as u64;
    let keep: Vec<Value> = items.iter().map(|i| i.line.clone()).collect();
    for (k, res) in run_batch(items, replay_item).into_iter().enumerate() {
        match res {
            Some((mc, st)) => {
                m.merge(mc);
                for (k, v) in st {
                    let e = stats.entry(k).or_insert(json!(0));
                    *e = json!(e.as_u64().unwrap_or(0) + v.as_u64().unwrap_or(0));
                }
            }
            None => m.pv("Timeout:case".into(), "parsing/matching one enumerated policy did not finish within the watchdog".into(), keep[k].clone()),
        }
    }
    let out = json!({"cases": cases, "evals": m.evals, "pv": m.pv, "pv_counts": m.per_key, "stats": stats});
    std::fs::write(out_path, serde_json::to_string_pretty(&out).unwrap()).expect("write result");
}

// ------------------------------------------------------------------------------------------
// record: random deeper instances for Trace_PathPolicy, random strings for totality
// ------------------------------------------------------------------------------------------
fn rand_pred(rng: &mut Rng, with_text: bool) -> P {
    let ik = *rng.pick(&["any", "any", "either", "both"]);
    let asn = match rng.below(4) {
        0 if !with_text || ik == "any" => None,
        1 => Some(0),
        _ => Some(*rng.pick(&[10u64, 20, 30])),
    };
    P { isd: *rng.pick(&[0u16, 1, 1, 2]), asn, ik: ik.to_string(), a: rng.below(3) as u16, b: if ik == "both" { rng.below(3) as u16 } else { 0 } }
}
fn rand_expr(rng: &mut Rng, depth: u32) -> E {
    if depth == 0 || rng.chance(1, 4) {
        return E::Pred(rand_pred(rng, true));
    }
    match rng.below(5) {
        0 | 1 => E::Or(Box::new(rand_expr(rng, depth - 1)), Box::new(rand_expr(rng, depth - 1))),
        2 => E::Post("opt", Box::new(rand_expr(rng, depth - 1))),
        3 => E::Post("plus", Box::new(rand_expr(rng, depth - 1))),
        _ => E::Post("star", Box::new(rand_expr(rng, depth - 1))),
    }
}
fn rand_hop(rng: &mut Rng) -> PathPolicyHop {
    PathPolicyHop { isd_asn: IsdAsn::new(Isd(*rng.pick(&[1u16, 2])), Asn(*rng.pick(&[10u64, 20, 30]))), ingress: rng.below(3) as u16, egress: rng.below(3) as u16 }
}
fn rand_w(rng: &mut Rng, maxlen: u64) -> Vec<PathPolicyHop> {
    let n = rng.below(maxlen + 1);
    let mut w: Vec<PathPolicyHop> = (0..n).map(|_| rand_hop(rng)).collect();
    // half of the sequences are shaped like paths (no ingress at the first, no egress at the last hop)
    if w.len() >= 2 && rng.chance(1, 2) {
        w[0].ingress = 0;
        let l = w.len() - 1;
        w[l].egress = 0;
    }
    w
}

/// one unit of work for the watchdog worker: texts to parse as patterns and hop sequences to match
struct TextItem {
    texts: Vec<String>,
    ws: Vec<Vec<PathPolicyHop>>,
    other_parsers: bool,
}
type TextResult = (Mon, Vec<Option<Vec<Option<bool>>>>);
fn text_item(it: &TextItem) -> TextResult {
    let mut m = Mon::default();
    let mut vs = Vec::new();
    for t in &it.texts {
        let v: Option<Vec<Option<bool>>> =
            parse_pattern(&mut m, t).map(|pol| it.ws.iter().map(|w| pat_verdict(&mut m, &pol, w, &json!({"pattern_text": t, "w": w_json(w)}))).collect());
        vs.push(v);
        if it.other_parsers {
            m.evals += 2;
            if let Err(msg) = vh_core::catch(|| AclPolicy::parse(t)) {
                m.pv("Panic:acl-parse".into(), format!("AclPolicy::parse panics on {t:?}: {msg}"), json!({"kind": "text", "text": t}));
            }
            if let Err(msg) = vh_core::catch(|| HopPredicate::from_str(t)) {
                m.pv("Panic:predicate".into(), format!("HopPredicate::from_str panics on {t:?}: {msg}"), json!({"kind": "text", "text": t}));
            }
        }
    }
    (m, vs)
}

fn record(trace_path: &str, out_path: &str) {
    let thorough = vh_core::tier_is_thorough();
    let mut rng = Rng::from_env();
    let mut tw = NdjsonWriter::create(trace_path);
    tw.write(&json!({"ev": "meta", "spec": "PathPolicy"}));
    let mut m = Mon::default();
    let scale: u64 = std::env::var("VERIF_SCALE").ok().and_then(|x| x.parse().ok()).unwrap_or(if thorough { 10 } else { 1 });
    let (npat, nacl, ntok, nstr) = (300 * scale, 200 * scale, 400 * scale, 3000 * scale);
    let maxdepth = if thorough { 8 } else { 5 };
    let maxw = 12;
    let (mut lines, mut accepted_tok, mut accepted_str) = (0u64, 0u64, 0u64);
    let mut items: Vec<TextItem> = Vec::new();
    // random deeper patterns
    let mut pats: Vec<Value> = Vec::new();
    for _ in 0..npat {
        let n = 1 + rng.below(3);
        let pat: Vec<E> = (0..n).map(|_| { let d = rng.below(maxdepth + 1) as u32; rand_expr(&mut rng, d) }).collect();
        let ws: Vec<Vec<PathPolicyHop>> = (0..6).map(|_| rand_w(&mut rng, maxw)).collect();
        let mut r2 = Rng::new(rng.next_u64());
        let mut sep = move || match r2.below(6) {
            0 => " ".to_string(),
            1 => "  \t".to_string(),
            2 => "\n".to_string(),
            _ => String::new(),
        };
        let mut nosep = || String::new();
        let texts = vec![pat_text(&pat, 0, &mut nosep, false), pat_text(&pat, (1 + rng.below(2)) as u8, &mut sep, rng.chance(1, 2))];
        pats.push(Value::Array(pat.iter().map(e_json).collect()));
        items.push(TextItem { texts, ws, other_parsers: false });
    }
    // random token strings: syntax and meaning
    let tok_pool = ["p", "p", "p", "p", "or", "or", "opt", "opt", "plus", "plus", "star", "star", "lp", "lp", "rp", "rp", "bang", "and"];
    let mut tokss: Vec<Vec<Value>> = Vec::new();
    for _ in 0..ntok {
        let n = rng.below(13);
        let mut depth = 0i32;
        let mut toks: Vec<Value> = Vec::new();
        for _ in 0..n {
            // biased towards well-formed strings
            let k = *rng.pick(&tok_pool);
            let k = if k == "rp" && depth == 0 && rng.chance(3, 4) { "p" } else { k };
            if k == "lp" {
                depth += 1;
            }
            if k == "rp" {
                depth -= 1;
            }
            toks.push(if k == "p" { json!({"k": "p", "p": p_json(&rand_pred(&mut rng, true))}) } else { json!({"k": k}) });
        }
        while depth > 0 && rng.chance(4, 5) {
            toks.push(json!({"k": "rp"}));
            depth -= 1;
        }
        let (spaced, tight) = tok_texts(&toks);
        let t = if rng.chance(1, 2) { spaced } else { tight };
        let ws: Vec<Vec<PathPolicyHop>> = (0..5).map(|_| rand_w(&mut rng, 8)).collect();
        tokss.push(toks);
        items.push(TextItem { texts: vec![t], ws, other_parsers: false });
    }
    // random character strings: totality of lexer, parser, error report, and of the ACL / predicate parsers
    let chars: Vec<char> = "0123-#,:|?+*()!& \t\nx\u{e9}\u{1f600}".chars().collect();
    for _ in 0..nstr {
        let n = rng.below(24);
        let s: String = (0..n).map(|_| *rng.pick(&chars)).collect();
        items.push(TextItem { texts: vec![s], ws: vec![], other_parsers: true });
    }
    let keep: Vec<(Vec<String>, Vec<Vec<PathPolicyHop>>)> = items.iter().map(|i| (i.texts.clone(), i.ws.clone())).collect();
    let results = run_batch(items, text_item);
    for (k, res) in results.into_iter().enumerate() {
        let (texts, ws) = &keep[k];
        let Some((mc, vs)) = res else {
            m.pv("Timeout:pattern".into(), format!("parsing/matching {:?} did not finish within the watchdog", texts[0]), json!({"kind": "text", "text": texts[0]}));
            continue;
        };
        m.merge(mc);
        let wsj: Vec<Value> = ws.iter().map(|w| w_json(w)).collect();
        if (k as u64) < npat {
            let pj = &pats[k];
            for (t, v) in texts.iter().zip(&vs) {
                match v {
                    None => m.pv("Reject:pattern".into(), format!("the printed form {t:?} of a pattern is rejected by the parser"), json!({"kind": "text", "text": t, "pat": pj})),
                    Some(v) => {
                        if v.iter().all(|x| x.is_some()) {
                            tw.write(&json!({"ev": "pat", "text": t, "pat": pj, "ws": wsj, "real": v.iter().map(|x| x.unwrap() as u8).collect::<Vec<_>>()}));
                            lines += 1;
                        }
                    }
                }
            }
            if let (Some(a), Some(b)) = (&vs[0], &vs[1]) {
                if a != b {
                    m.pv("Variants:verdicts".into(), format!("{:?} and {:?} differ only in parentheses/white space/AS notation but give different verdicts", texts[0], texts[1]), json!({"a": texts[0], "b": texts[1]}));
                }
            }
        } else if (k as u64) < npat + ntok {
            let toks = &tokss[k - npat as usize];
            let ok = vs[0].is_some();
            if ok {
                accepted_tok += 1;
            }
            let real: Vec<u8> = vs[0].as_ref().map(|v| v.iter().map(|x| x.unwrap_or(false) as u8).collect()).unwrap_or_default();
            tw.write(&json!({"ev": "tok", "text": texts[0], "ts": toks, "ok": ok, "ws": if ok { wsj } else { vec![] }, "real": real}));
            lines += 1;
        } else if vs[0].is_some() {
            accepted_str += 1;
        }
    }
    // random ACLs (constructor route; entries may have no text form)
    for _ in 0..nacl {
        let n = rng.below(7);
        let a = AclV { entries: (0..n).map(|_| (rng.chance(1, 2), rand_pred(&mut rng, false))).collect(), def: rng.chance(1, 2) };
        let built = acl_build(&a);
        let mut ws: Vec<Vec<PathPolicyHop>> = (0..6).map(|_| rand_w(&mut rng, maxw)).collect();
        ws.push(vec![]);
        let pj = acl_json(&a);
        let v: Vec<Option<bool>> = ws.iter().map(|w| acl_verdict(&mut m, &built, w, &json!({"acl": pj, "w": w_json(w)}))).collect();
        if v.iter().all(|x| x.is_some()) {
            tw.write(&json!({"ev": "acl", "acl": pj, "ws": ws.iter().map(|w| w_json(w)).collect::<Vec<_>>(), "real": v.iter().map(|x| x.unwrap() as u8).collect::<Vec<_>>()}));
            lines += 1;
        }
    }
    // Policy { acl, hop_pattern } and WeightedPolicies::match_highest (non-empty hop sequences only: the
    // empty path is the separately keyed ACL finding)
    let nwp = 150 * scale;
    for _ in 0..nwp {
        let np = 1 + rng.below(4);
        let mut pols_json: Vec<Value> = Vec::new();
        let mut pols: Vec<(u8, Policy)> = Vec::new();
        let mut weights: Vec<u8> = Vec::new();
        while (weights.len() as u64) < np {
            let w = rng.below(256) as u8;
            if !weights.contains(&w) {
                weights.push(w);
            }
        }
        for &w in &weights {
            let hasacl = rng.chance(2, 3);
            let haspat = rng.chance(2, 3);
            let a = AclV { entries: (0..rng.below(4)).map(|_| (rng.chance(1, 2), rand_pred(&mut rng, false))).collect(), def: rng.chance(2, 3) };
            let n = rng.below(3);
            let pat: Vec<E> = (0..n).map(|_| rand_expr(&mut rng, 3)).collect();
            let mut nosep = || String::new();
            let text = pat_text(&pat, 0, &mut nosep, false);
            let parsed = if haspat { parse_pattern(&mut m, &text) } else { None };
            if haspat && parsed.is_none() {
                m.pv("Reject:pattern".into(), format!("the printed form {text:?} of a pattern is rejected by the parser"), json!({"kind": "text", "text": text}));
                continue;
            }
            pols.push((w, Policy::new(if hasacl { Some(acl_build(&a)) } else { None }, parsed)));
            pols_json.push(json!({"w": w, "hasacl": hasacl, "acl": acl_json(&a), "haspat": haspat, "pat": pat.iter().map(e_json).collect::<Vec<_>>(), "text": text}));
        }
        let wp = WeightedPolicies::new(pols);
        let ws: Vec<Vec<PathPolicyHop>> = (0..6).map(|_| { let mut w = rand_w(&mut rng, 6); if w.is_empty() { w.push(rand_hop(&mut rng)); } w }).collect();
        let mut real: Vec<i64> = Vec::new();
        let mut okline = true;
        for w in &ws {
            m.evals += 1;
            match vh_core::catch(|| wp.match_highest(w).map(|chosen| wp.policies.iter().find(|(_, p)| std::ptr::eq(*p, chosen)).map(|(k, _)| *k as i64).unwrap_or(-2))) {
                Ok(Some(k)) => real.push(k),
                Ok(None) => real.push(-1),
                Err(msg) => {
                    okline = false;
                    m.pv("Panic:weighted".into(), format!("WeightedPolicies::match_highest panics: {msg}"), json!({"pols": pols_json, "w": w_json(w)}));
                }
            }
        }
        if okline {
            tw.write(&json!({"ev": "wp", "pols": pols_json, "ws": ws.iter().map(|w| w_json(w)).collect::<Vec<_>>(), "real": real}));
            lines += 1;
        }
    }
    tw.finish();
    let out = json!({"lines": lines, "evals": m.evals, "patterns": npat, "weighted_sets": nwp, "acls": nacl, "token_strings": ntok, "token_strings_accepted": accepted_tok,
        "char_strings": nstr, "char_strings_accepted": accepted_str, "pv": m.pv, "pv_counts": m.per_key});
    std::fs::write(out_path, serde_json::to_string_pretty(&out).unwrap()).expect("write result");
}

fn one(text: &str) {
    let mut m = Mon::default();
    let r = parse_pattern(&mut m, text);
    println!("pattern parse: {:?}", r);
    println!("acl parse: {:?}", vh_core::catch(|| AclPolicy::parse(text)));
    println!("predicate parse: {:?}", vh_core::catch(|| HopPredicate::from_str(text)));
    for p in m.pv {
        println!("{p}");
    }
}

/// `deep <kind> <n>`: nesting probe, run by the check in a CHILD process because the observation of
/// interest is death by signal (stack overflow).  Parses, matches and drops a pattern whose operators
/// are nested n deep on a thread with Rust's default thread stack (2 MiB, as used by tokio workers).
fn deep(kind: &str, n: usize) {
    let text = match kind {
        "paren" => format!("{}1{}", "(".repeat(n), ")".repeat(n)),
        "postfix" => format!("1{}", "?".repeat(n)),
        _ => format!("{}1", "(1|".repeat(n)) + &")".repeat(n),
    };
    let h = std::thread::spawn(move || {
        let hop = PathPolicyHop { isd_asn: IsdAsn::new(Isd(1), Asn(1)), ingress: 0, egress: 0 };
        match HopPatternPolicy::parse(&text) {
            Ok(p) => {
                let r = p.matches(&[hop]);
                drop(p);
                println!("parsed, matches={r}");
            }
            Err(e) => println!("rejected: {}", e.message),
        }
    });
    let _ = h.join();
}

fn main() {
    vh_core::quiet_panics();
    let args: Vec<String> = std::env::args().collect();
    match args.get(1).map(|s| s.as_str()) {
        Some("replay") if args.len() >= 4 => replay(&args[2], &args[3]),
        Some("record") if args.len() >= 4 => record(&args[2], &args[3]),
        Some("one") if args.len() >= 3 => one(&args[2]),
        Some("deep") if args.len() >= 4 => deep(&args[2], args[3].parse().unwrap_or(0)),
        _ => {
            eprintln!("usage: replay <cases.ndjson> <result.json> | record <trace.ndjson> <result.json> | one <text>");
            std::process::exit(2);
        }
    }
}
