//! C02 compile-time probe: this binary builds only while
//! `ScmpUnknownMessageView::set_message_type` is a SAFE fn (an `unsafe fn` item does not coerce to a
//! safe fn pointer).  checks/C02.py builds it and tells the runner whether that setter belongs to
//! the catalogue of safe mutators.
use sciparse::payload::scmp::view::ScmpUnknownMessageView;

fn main() {
    let _f: fn(&mut ScmpUnknownMessageView, u8) = ScmpUnknownMessageView::set_message_type;
    println!("safe");
}
