//! C15 harness for the sciparse text forms (ISD, AS, ISD-AS, service, host, SCION address, SCION
//! socket address): see ../addrtext/engine.rs.  The TXT record types live in vh-stack/txtrecord.
#[path = "../addrtext/engine.rs"]
mod engine;

use std::fmt::Display;
use std::net::{Ipv4Addr, Ipv6Addr};
use std::str::FromStr;

use engine::{HostV, Out, Target, Val};
use sciparse::address::addr::{ScionAddr, ScionAddrSvc, ScionAddrV4, ScionAddrV6};
use sciparse::address::host_addr::{ScionHostAddr, ServiceAddr};
use sciparse::address::ip_addr::ScionIpAddr;
use sciparse::address::ip_socket_addr::ScionSocketIpAddr;
use sciparse::address::socket_addr::{ScionSocketAddr, ScionSocketAddrSvc, ScionSocketAddrV4, ScionSocketAddrV6};
use sciparse::identifier::asn::Asn;
use sciparse::identifier::isd::Isd;
use sciparse::identifier::isd_asn::IsdAsn;
use sciparse::path::policy::types::{HopPredicate, InterfacesPredicate};
use vh_core::Rng;

trait ToVal {
    fn to_val(&self) -> Val;
}
fn host_val(h: ScionHostAddr) -> HostV {
    match h {
        ScionHostAddr::V4(a) => HostV::V4(a.to_bits()),
        ScionHostAddr::V6(a) => HostV::V6(a.to_bits()),
        ScionHostAddr::Svc(s) => HostV::Svc(s.0),
    }
}
fn ia_val(ia: IsdAsn) -> Val {
    Val { isd: Some(ia.isd().to_u16()), asn: Some(ia.asn().to_u64()), ..Val::default() }
}
fn addr_val(ia: IsdAsn, h: ScionHostAddr, port: Option<u16>) -> Val {
    Val { host: Some(host_val(h)), port, ..ia_val(ia) }
}
impl ToVal for Isd {
    fn to_val(&self) -> Val {
        Val { isd: Some(self.0), ..Val::default() }
    }
}
impl ToVal for Asn {
    fn to_val(&self) -> Val {
        Val { asn: Some(self.0), ..Val::default() }
    }
}
impl ToVal for IsdAsn {
    fn to_val(&self) -> Val {
        // taken from the raw 64 bits, not through the accessors
        Val { isd: Some((self.0 >> 48) as u16), asn: Some(self.0 & 0xffff_ffff_ffff), ..Val::default() }
    }
}
impl ToVal for ServiceAddr {
    fn to_val(&self) -> Val {
        Val { host: Some(HostV::Svc(self.0)), ..Val::default() }
    }
}
impl ToVal for ScionHostAddr {
    fn to_val(&self) -> Val {
        Val { host: Some(host_val(*self)), ..Val::default() }
    }
}
impl ToVal for ScionAddr {
    fn to_val(&self) -> Val {
        match self {
            ScionAddr::V4(a) => a.to_val(),
            ScionAddr::V6(a) => a.to_val(),
            ScionAddr::Svc(a) => a.to_val(),
        }
    }
}
impl ToVal for ScionAddrV4 {
    fn to_val(&self) -> Val {
        addr_val(self.isd_asn, ScionHostAddr::V4(self.host), None)
    }
}
impl ToVal for ScionAddrV6 {
    fn to_val(&self) -> Val {
        addr_val(self.isd_asn, ScionHostAddr::V6(self.host), None)
    }
}
impl ToVal for ScionAddrSvc {
    fn to_val(&self) -> Val {
        addr_val(self.isd_asn, ScionHostAddr::Svc(self.host), None)
    }
}
impl ToVal for ScionIpAddr {
    fn to_val(&self) -> Val {
        match self {
            ScionIpAddr::V4(a) => a.to_val(),
            ScionIpAddr::V6(a) => a.to_val(),
        }
    }
}
impl ToVal for ScionSocketAddrV4 {
    fn to_val(&self) -> Val {
        addr_val(self.isd_asn, ScionHostAddr::V4(self.host), Some(self.port))
    }
}
impl ToVal for ScionSocketAddrV6 {
    fn to_val(&self) -> Val {
        addr_val(self.isd_asn, ScionHostAddr::V6(self.host), Some(self.port))
    }
}
impl ToVal for ScionSocketAddrSvc {
    fn to_val(&self) -> Val {
        addr_val(self.isd_asn, ScionHostAddr::Svc(self.host), Some(self.port))
    }
}
impl ToVal for ScionSocketAddr {
    fn to_val(&self) -> Val {
        match self {
            ScionSocketAddr::V4(a) => a.to_val(),
            ScionSocketAddr::V6(a) => a.to_val(),
            ScionSocketAddr::Svc(a) => a.to_val(),
        }
    }
}
impl ToVal for ScionSocketIpAddr {
    fn to_val(&self) -> Val {
        match self {
            ScionSocketIpAddr::V4(a) => a.to_val(),
            ScionSocketIpAddr::V6(a) => a.to_val(),
        }
    }
}

fn ifs_val(i: &InterfacesPredicate) -> HostV {
    match i {
        InterfacesPredicate::Any => HostV::IfAny,
        InterfacesPredicate::Either(a) => HostV::If1(a.into_inner()),
        InterfacesPredicate::Both { ingress, egress } => HostV::If2(ingress.into_inner(), egress.into_inner()),
    }
}
impl ToVal for InterfacesPredicate {
    fn to_val(&self) -> Val {
        Val { host: Some(ifs_val(self)), ..Val::default() }
    }
}
impl ToVal for HopPredicate {
    fn to_val(&self) -> Val {
        Val { isd: Some(self.isd.0), asn: self.asn.map(|a| a.0), host: Some(ifs_val(&self.interfaces)), ..Val::default() }
    }
}

/// FromStr entry point under catch_unwind
fn via_fromstr<T: FromStr + ToVal>(s: &str) -> Out {
    match vh_core::catch(|| T::from_str(s).ok().map(|v| v.to_val())) {
        Ok(Some(v)) => Out::Acc(v),
        Ok(None) => Out::Rej,
        Err(m) => Out::Panic(m),
    }
}
/// serde string form (DeserializeFromStr) under catch_unwind
fn via_serde<T: serde::de::DeserializeOwned + ToVal>(s: &str) -> Out {
    let j = serde_json::Value::String(s.to_string());
    match vh_core::catch(|| serde_json::from_value::<T>(j).ok().map(|v| v.to_val())) {
        Ok(Some(v)) => Out::Acc(v),
        Ok(None) => Out::Rej,
        Err(m) => Out::Panic(m),
    }
}
fn both<T: FromStr + serde::de::DeserializeOwned + ToVal>(s: &str) -> Vec<(&'static str, Out)> {
    vec![("from_str", via_fromstr::<T>(s)), ("serde", via_serde::<T>(s))]
}

/// displayed forms: Display and the serde string form must agree, otherwise both are listed
fn show<T: Display + serde::Serialize + ToVal>(class: &str, v: T, out: &mut Vec<(String, String, Val)>) {
    let d = match vh_core::catch(|| v.to_string()) {
        Ok(d) => d,
        Err(m) => format!("<display panicked: {m}>"),
    };
    out.push((class.to_string(), d.clone(), v.to_val()));
    if let Ok(serde_json::Value::String(sd)) = serde_json::to_value(&v) {
        if sd != d {
            out.push((format!("{class}/serde"), sd, v.to_val()));
        }
    }
}

struct Sciparse;

fn isds(rng: &mut Rng, n: usize) -> Vec<u16> {
    let mut v = vec![0, 1, 19, 9999, 10000, 65535];
    for _ in 0..n {
        v.push(rng.below(65536) as u16);
    }
    v
}
fn asns(rng: &mut Rng, n: usize) -> Vec<u64> {
    let mut v = vec![0, 1, 65535, 65536, (1 << 32) - 1, 1 << 32, (1 << 32) + 1, 0xff00_0000_0110, 0x1_0000_0001, 0xffff_0000_0000, (1 << 48) - 1];
    for _ in 0..n {
        v.push(rng.below(1 << 32));
        v.push(rng.below(1 << 48));
    }
    v
}
fn v4s(rng: &mut Rng, n: usize) -> Vec<Ipv4Addr> {
    let mut v = vec![Ipv4Addr::from_bits(0), Ipv4Addr::from_bits(u32::MAX), Ipv4Addr::new(10, 0, 0, 1), Ipv4Addr::new(192, 0, 2, 1)];
    for _ in 0..n {
        v.push(Ipv4Addr::from_bits(rng.next_u64() as u32));
    }
    v
}
fn v6s(rng: &mut Rng, n: usize) -> Vec<Ipv6Addr> {
    let mut v = vec![
        Ipv6Addr::from_bits(0),
        Ipv6Addr::from_bits(1),
        Ipv6Addr::from_bits(u128::MAX),
        Ipv6Addr::from_str("2001:db8::1").unwrap(),
        Ipv6Addr::from_str("::ffff:192.0.2.1").unwrap(),
        Ipv6Addr::from_str("1:0:0:2::").unwrap(),
        Ipv6Addr::from_str("1:2:3:4:5:6:7:8").unwrap(),
        Ipv6Addr::from_str("::1.2.3.4").unwrap(),
        Ipv6Addr::from_str("fe80::1:0:0:1").unwrap(),
    ];
    for _ in 0..n {
        let hi = rng.next_u64() as u128;
        let lo = rng.next_u64() as u128;
        let mut x = (hi << 64) | lo;
        // knock out random groups so that `::` compression occurs
        for g in 0..8 {
            if rng.chance(1, 3) {
                x &= !(0xffffu128 << (16 * g));
            }
        }
        v.push(Ipv6Addr::from_bits(x));
    }
    v
}
/// (class, value): named services in both casts; unnamed service numbers are a class of their own
fn svcs(rng: &mut Rng, n: usize) -> Vec<(&'static str, ServiceAddr)> {
    let mut v = vec![
        ("svc-named", ServiceAddr::DAEMON),
        ("svc-named", ServiceAddr::CONTROL),
        ("svc-named", ServiceAddr::WILDCARD),
        ("svc-named", ServiceAddr::DAEMON.to_multicast()),
        ("svc-named", ServiceAddr::CONTROL.to_multicast()),
        ("svc-named", ServiceAddr::WILDCARD.to_multicast()),
        ("svc-unnamed", ServiceAddr(0)),
        ("svc-unnamed", ServiceAddr(3)),
        ("svc-unnamed", ServiceAddr::NONE),
    ];
    for _ in 0..n.min(2) {
        let x = rng.below(65536) as u16;
        if !matches!(x & 0x7fff, 1 | 2 | 0x10) {
            v.push(("svc-unnamed", ServiceAddr(x)));
        }
    }
    v
}
fn ports(rng: &mut Rng, n: usize) -> Vec<u16> {
    let mut v = vec![0, 80, 65535];
    for _ in 0..n {
        v.push(rng.below(65536) as u16);
    }
    v
}
fn ias(rng: &mut Rng, n: usize) -> Vec<IsdAsn> {
    let a = asns(rng, n);
    let i = isds(rng, n);
    let mut v = vec![IsdAsn(0), IsdAsn(u64::MAX), IsdAsn(0x0001_ff00_0000_0110)];
    for k in 0..a.len().max(i.len()) {
        v.push(IsdAsn::new(Isd(i[k % i.len()]), Asn::new(a[(k * 7 + 3) % a.len()])));
    }
    v
}
fn hosts(rng: &mut Rng, n: usize, kinds: &str) -> Vec<(&'static str, ScionHostAddr)> {
    let mut v = Vec::new();
    if kinds.contains('4') {
        v.extend(v4s(rng, n).into_iter().map(|a| ("v4", ScionHostAddr::V4(a))));
    }
    if kinds.contains('6') {
        v.extend(v6s(rng, n).into_iter().map(|a| ("v6", ScionHostAddr::V6(a))));
    }
    if kinds.contains('s') {
        v.extend(svcs(rng, n).into_iter().map(|(c, a)| (c, ScionHostAddr::Svc(a))));
    }
    v
}

impl Target for Sciparse {
    fn types(&self) -> Vec<&'static str> {
        vec!["Isd", "Asn", "IsdAsn", "Svc", "Host", "AddrV4", "AddrV6", "AddrSvc", "Addr", "IpAddr", "SockV4", "SockV6", "SockSvc", "Sock", "SockIp", "HopPred", "IfPred"]
    }
    fn parse(&self, ty: &str, s: &str) -> Vec<(&'static str, Out)> {
        match ty {
            "Isd" => both::<Isd>(s),
            "Asn" => both::<Asn>(s),
            "IsdAsn" => {
                let mut v = both::<IsdAsn>(s);
                let owned = s.to_string();
                v.push(("try_from_string", match vh_core::catch(|| IsdAsn::try_from(owned).ok().map(|x| x.to_val())) {
                    Ok(Some(x)) => Out::Acc(x),
                    Ok(None) => Out::Rej,
                    Err(m) => Out::Panic(m),
                }));
                v
            }
            "Svc" => vec![("from_str", via_fromstr::<ServiceAddr>(s))],
            "Host" => both::<ScionHostAddr>(s),
            "AddrV4" => both::<ScionAddrV4>(s),
            "AddrV6" => both::<ScionAddrV6>(s),
            "AddrSvc" => both::<ScionAddrSvc>(s),
            "Addr" => both::<ScionAddr>(s),
            "IpAddr" => both::<ScionIpAddr>(s),
            "SockV4" => both::<ScionSocketAddrV4>(s),
            "SockV6" => both::<ScionSocketAddrV6>(s),
            "SockSvc" => both::<ScionSocketAddrSvc>(s),
            "Sock" => both::<ScionSocketAddr>(s),
            "SockIp" => both::<ScionSocketIpAddr>(s),
            "HopPred" => vec![("from_str", via_fromstr::<HopPredicate>(s))],
            "IfPred" => vec![("from_str", via_fromstr::<InterfacesPredicate>(s))],
            _ => vec![],
        }
    }
    fn shown(&self, ty: &str, rng: &mut Rng, n: usize) -> Vec<(String, String, Val)> {
        let mut out = Vec::new();
        let kinds = match ty {
            "Host" | "Addr" | "Sock" => "46s",
            "AddrV4" | "SockV4" => "4",
            "AddrV6" | "SockV6" => "6",
            "AddrSvc" | "SockSvc" | "Svc" => "s",
            "IpAddr" | "SockIp" => "46",
            _ => "",
        };
        match ty {
            "Isd" => isds(rng, n).into_iter().for_each(|x| show("isd", Isd(x), &mut out)),
            "Asn" => asns(rng, n).into_iter().for_each(|x| show(if x < (1 << 32) { "as-decimal" } else { "as-hex" }, Asn(x), &mut out)),
            "IsdAsn" => ias(rng, n).into_iter().for_each(|x| show("ia", x, &mut out)),
            "Svc" => {
                for (c, v) in svcs(rng, n) {
                    // ServiceAddr has Display but no serde form
                    let d = vh_core::catch(|| v.to_string()).unwrap_or_else(|m| format!("<display panicked: {m}>"));
                    out.push((c.to_string(), d, v.to_val()));
                }
            }
            "Host" => hosts(rng, n, kinds).into_iter().for_each(|(c, h)| show(c, h, &mut out)),
            "IfPred" => {
                // InterfacesPredicate::Any has the empty displayed form (it is simply omitted in a predicate)
                for (a, b) in [(0u16, 0u16), (1, 2), (65535, 0), (0, 65535), (rng.below(65536) as u16, rng.below(65536) as u16)] {
                    for v in [InterfacesPredicate::either(a), InterfacesPredicate::both(a, b)] {
                        let d = vh_core::catch(|| v.to_string()).unwrap_or_else(|m| format!("<display panicked: {m}>"));
                        out.push(("ifs".to_string(), d, v.to_val()));
                    }
                }
            }
            "HopPred" => {
                let a = asns(rng, n);
                let i = isds(rng, n);
                let ifs = [InterfacesPredicate::any(), InterfacesPredicate::either(0u16), InterfacesPredicate::either(7u16), InterfacesPredicate::both(0u16, 0u16),
                    InterfacesPredicate::both(1u16, 65535u16), InterfacesPredicate::both(rng.below(65536) as u16, 0u16)];
                for k in 0..(a.len() * 2) {
                    let asn = if k % 4 == 3 { None } else { Some(Asn(a[k % a.len()])) };
                    let p = HopPredicate { isd: Isd(i[k % i.len()]), asn, interfaces: ifs[k % ifs.len()] };
                    let d = vh_core::catch(|| p.to_string()).unwrap_or_else(|m| format!("<display panicked: {m}>"));
                    // reading adopted (C16): a predicate without AS and one with the AS wildcard are the same
                    // predicate; interfaces can only be written after an AS, so the expected value names AS 0
                    let mut v = p.to_val();
                    let class = if asn.is_none() && !matches!(p.interfaces, InterfacesPredicate::Any) {
                        v.asn = Some(0);
                        "pred-interfaces-without-as"
                    } else {
                        "pred"
                    };
                    out.push((class.to_string(), d, v));
                }
            }
            _ => {
                let ia = ias(rng, n);
                let hs = hosts(rng, n, kinds);
                let ps = ports(rng, n);
                for (k, (c, h)) in hs.into_iter().enumerate() {
                    let a = ia[(k * 5 + 1) % ia.len()];
                    let p = ps[k % ps.len()];
                    match (ty, h) {
                        ("AddrV4", ScionHostAddr::V4(x)) => show(c, ScionAddrV4::new(a, x), &mut out),
                        ("AddrV6", ScionHostAddr::V6(x)) => show(c, ScionAddrV6::new(a, x), &mut out),
                        ("AddrSvc", ScionHostAddr::Svc(x)) => show(c, ScionAddrSvc::new(a, x), &mut out),
                        ("Addr", h) => show(c, ScionAddr::new(a, h), &mut out),
                        ("IpAddr", h) => show(c, ScionIpAddr::new(a, h.ip().unwrap()), &mut out),
                        ("SockV4", ScionHostAddr::V4(x)) => show(c, ScionSocketAddrV4::new(a, x, p), &mut out),
                        ("SockV6", ScionHostAddr::V6(x)) => show(c, ScionSocketAddrV6::new(a, x, p), &mut out),
                        ("SockSvc", ScionHostAddr::Svc(x)) => show(c, ScionSocketAddrSvc::new(a, x, p), &mut out),
                        ("Sock", h) => show(c, ScionSocketAddr::new(a, h, p), &mut out),
                        ("SockIp", h) => show(c, ScionSocketIpAddr::new(a, h.ip().unwrap(), p), &mut out),
                        _ => {}
                    }
                }
            }
        }
        out
    }
}

fn main() {
    engine::main_with(&Sciparse);
}
