//! C03 harness: binds spec/Wire/WireFormat.tla to sciparse's wire codec.
//!
//! wireformat replay <cases.ndjson> <out.ndjson>
//!     spec -> impl: every line is {"m": packet model, "e": expected encoding} printed by TLC
//!     (MC_WireFormat, GEN = TRUE).  The same model is built with sciparse's model types,
//!     required_size / wire_valid / try_encode / try_encode_to_vec are called and the P-monitors of
//!     C03 are evaluated on the real bytes.
//! wireformat record <cases.ndjson> <events.ndjson> <results.json>
//!     impl -> spec: seeded random byte strings and mutations of the spec's canonical encodings are
//!     decoded by sciparse; every ACCEPTED string is logged with the decoded model and its
//!     re-encoding for Trace_WireFormat.
use sciparse::address::host_addr::{ServiceAddr, WireHostAddr};
use sciparse::core::convert::TryFromView;
use sciparse::core::encode::WireEncode;
use sciparse::core::model::Model;
use sciparse::dataplane_path::model::DpPath;
use sciparse::dataplane_path::onehop::model::OneHopPath;
use sciparse::dataplane_path::standard::model::{HopField, InfoField, Segment, StandardPath};
use sciparse::dataplane_path::standard::types::{HopFieldFlags, HopFieldMac, InfoFieldFlags};
use sciparse::dataplane_path::types::PathType;
use sciparse::header::model::{AddressHeader, CommonHeader, ScionPacketHeader};
use sciparse::identifier::isd_asn::IsdAsn;
use sciparse::packet::model::{ScionPacket, ScionRawPacket, ScionScmpPacket, ScionUdpPacket};
use sciparse::payload::ProtocolNumber;
use sciparse::payload::encode::PayloadEncode;
use sciparse::payload::scmp::model::{
    ScmpDestinationUnreachable, ScmpEchoReply, ScmpEchoRequest, ScmpExternalInterfaceDown,
    ScmpInternalConnectivityDown, ScmpMessage, ScmpMessageUnknown, ScmpPacketTooBig,
    ScmpParameterProblem, ScmpTracerouteReply, ScmpTracerouteRequest,
};
use sciparse::payload::udp::model::UdpDatagram;
use serde_json::{Value, json};
use vh_core::{NdjsonWriter, Rng, catch};

// ------------------------------------------------------------------------------------ json helpers

fn u(v: &Value) -> u64 {
    v.as_u64().unwrap_or_else(|| panic!("expected unsigned int, got {v}"))
}
fn bytes_of(v: &Value) -> Vec<u8> {
    v.as_array().map(|a| a.iter().map(|x| u(x) as u8).collect()).unwrap_or_default()
}
fn s(v: &Value) -> &str {
    v.as_str().unwrap_or("")
}
fn jbytes(b: &[u8]) -> Value {
    Value::Array(b.iter().map(|x| json!(*x)).collect())
}
fn be(b: &[u8]) -> u64 {
    b.iter().fold(0u64, |a, x| (a << 8) | *x as u64)
}
fn pattern(n: usize, pat: &[u8]) -> Vec<u8> {
    (0..n).map(|i| pat[i % pat.len()]).collect()
}

// ------------------------------------------------------------------------------------ abstract model -> sciparse

fn addr_of(a: &Value) -> WireHostAddr {
    match s(&a["k"]) {
        "v4" => {
            let b = bytes_of(&a["b"]);
            WireHostAddr::V4(std::net::Ipv4Addr::new(b[0], b[1], b[2], b[3]))
        }
        "v6" => {
            let b: [u8; 16] = bytes_of(&a["b"]).try_into().expect("16 bytes");
            WireHostAddr::V6(std::net::Ipv6Addr::from(b))
        }
        "svc" => WireHostAddr::Svc(ServiceAddr(u(&a["v"]) as u16)),
        _ => WireHostAddr::Unknown { id: u(&a["id"]) as u8, bytes: bytes_of(&a["b"]).into_iter().collect() },
    }
}
fn info_of(i: &Value) -> InfoField {
    InfoField {
        flags: InfoFieldFlags::from_bits_retain(u(&i["flags"]) as u8),
        segment_id: u(&i["segid"]) as u16,
        timestamp: be(&bytes_of(&i["ts"])) as u32,
    }
}
fn hop_of(h: &Value) -> HopField {
    let mac: [u8; 6] = bytes_of(&h["mac"]).try_into().expect("6 bytes");
    HopField {
        flags: HopFieldFlags::from_bits_retain(u(&h["flags"]) as u8),
        expiration_units: u(&h["exp"]) as u8,
        cons_ingress: u(&h["in"]) as u16,
        cons_egress: u(&h["eg"]) as u16,
        mac: HopFieldMac(mac),
    }
}
fn path_of(p: &Value) -> DpPath {
    match s(&p["k"]) {
        "empty" => DpPath::Empty,
        "onehop" => {
            let hs = p["hops"].as_array().expect("hops");
            DpPath::OneHop(OneHopPath { info: info_of(&p["info"]), hops: [hop_of(&hs[0]), hop_of(&hs[1])] })
        }
        "std" => {
            let empty = vec![];
            let segs = p["segs"].as_array().unwrap_or(&empty);
            DpPath::Standard(StandardPath {
                current_info_field: u(&p["ci"]) as u8,
                current_hop_field: u(&p["ch"]) as u8,
                segments: segs
                    .iter()
                    .map(|sg| Segment {
                        info_field: info_of(&sg["info"]),
                        hop_fields: sg["hops"].as_array().unwrap_or(&empty).iter().map(hop_of).collect(),
                    })
                    .collect(),
            })
        }
        _ => DpPath::Unsupported { path_type: PathType::from(u(&p["t"]) as u8), data: bytes_of(&p["data"]) },
    }
}
fn header_of(m: &Value) -> ScionPacketHeader {
    ScionPacketHeader {
        common: CommonHeader {
            traffic_class: u(&m["tc"]) as u8,
            flow_id: u(&m["flow"]) as u32,
            next_header: ProtocolNumber::from(u(&m["nh"]) as u8),
        },
        address: AddressHeader {
            dst_ia: IsdAsn(be(&bytes_of(&m["dia"]))),
            src_ia: IsdAsn(be(&bytes_of(&m["sia"]))),
            dst_host_addr: addr_of(&m["dst"]),
            src_host_addr: addr_of(&m["src"]),
        },
        path: path_of(&m["path"]),
    }
}
/// `n` overrides the body length (used for the expected decoding of truncated SCMP quotes).
fn scmp_of(pl: &Value, n: usize) -> ScmpMessage {
    let body = pattern(n, &bytes_of(&pl["pat"]));
    let ia = IsdAsn(be(&bytes_of(&pl["ia"])));
    let ifid = be(&bytes_of(&pl["ifid"])) as u16;
    let ifid2 = be(&bytes_of(&pl["ifid2"])) as u16;
    let (id, seq) = (u(&pl["id"]) as u16, u(&pl["seq"]) as u16);
    let code = u(&pl["code"]) as u8;
    match s(&pl["t"]) {
        "du" => ScmpDestinationUnreachable::new(code.into(), body).into(),
        "ptb" => ScmpPacketTooBig::new(u(&pl["mtu"]) as u16, body).into(),
        "pp" => ScmpParameterProblem::new(code.into(), u(&pl["ptr"]) as u16, body).into(),
        "eid" => ScmpExternalInterfaceDown::new(ia, ifid, body).into(),
        "icd" => ScmpInternalConnectivityDown::new(ia, ifid, ifid2, body).into(),
        "ereq" => ScmpEchoRequest::new(id, seq, body).into(),
        "erep" => ScmpEchoReply::new(id, seq, body).into(),
        "treq" => ScmpTracerouteRequest::new(id, seq).into(),
        "trep" => ScmpTracerouteReply::new(id, seq, ia, ifid).into(),
        _ => ScmpMessageUnknown::new(u(&pl["mtype"]) as u8, code, body).into(),
    }
}

enum Pkt {
    Raw(ScionRawPacket),
    Udp(ScionUdpPacket),
    Scmp(ScionScmpPacket),
}
fn pkt_of(m: &Value, body_override: Option<usize>) -> Pkt {
    let header = header_of(m);
    let pl = &m["pl"];
    let n = body_override.unwrap_or(u(&pl["n"]) as usize);
    match s(&pl["k"]) {
        "raw" => Pkt::Raw(ScionPacket { header, payload: pattern(n, &bytes_of(&pl["pat"])) }),
        "udp" => Pkt::Udp(ScionPacket {
            header,
            payload: UdpDatagram::new(u(&pl["sp"]) as u16, u(&pl["dp"]) as u16, pattern(n, &bytes_of(&pl["pat"]))),
        }),
        _ => Pkt::Scmp(ScionPacket { header, payload: scmp_of(pl, n) }),
    }
}

// ------------------------------------------------------------------------------------ sciparse -> abstract model

fn addr_json(a: &WireHostAddr) -> Value {
    match a {
        WireHostAddr::V4(x) => json!({"k": "v4", "b": jbytes(&x.octets())}),
        WireHostAddr::V6(x) => json!({"k": "v6", "b": jbytes(&x.octets())}),
        WireHostAddr::Svc(x) => json!({"k": "svc", "v": x.0}),
        WireHostAddr::Unknown { id, bytes } => json!({"k": "unk", "id": id, "b": jbytes(bytes)}),
    }
}
fn info_json(i: &InfoField) -> Value {
    json!({"flags": i.flags.bits(), "segid": i.segment_id, "ts": jbytes(&i.timestamp.to_be_bytes())})
}
fn hop_json(h: &HopField) -> Value {
    json!({"flags": h.flags.bits(), "exp": h.expiration_units, "in": h.cons_ingress, "eg": h.cons_egress, "mac": jbytes(&h.mac.0)})
}
fn path_json(p: &DpPath) -> Value {
    match p {
        DpPath::Empty => json!({"k": "empty"}),
        DpPath::OneHop(o) => json!({"k": "onehop", "info": info_json(&o.info), "hops": [hop_json(&o.hops[0]), hop_json(&o.hops[1])]}),
        DpPath::Standard(sp) => json!({
            "k": "std", "ci": sp.current_info_field, "ch": sp.current_hop_field,
            "segs": sp.segments.iter().map(|sg| json!({"info": info_json(&sg.info_field),
                     "hops": sg.hop_fields.iter().map(hop_json).collect::<Vec<_>>()})).collect::<Vec<_>>()}),
        DpPath::Unsupported { path_type, data } => json!({"k": "uns", "t": u8::from(*path_type), "data": jbytes(data)}),
    }
}
fn body_json(o: &mut serde_json::Map<String, Value>, body: &[u8]) {
    o.insert("n".into(), json!(body.len()));
    o.insert("pat".into(), if body.is_empty() { json!([0]) } else { jbytes(body) });
}
fn scmp_json(msg: &ScmpMessage) -> Value {
    let mut o = serde_json::Map::new();
    let z8 = jbytes(&[0u8; 8]);
    o.insert("k".into(), json!("scmp"));
    for (k, v) in [("code", json!(0)), ("mtu", json!(0)), ("ptr", json!(0)), ("id", json!(0)), ("seq", json!(0)),
                   ("ia", z8.clone()), ("ifid", z8.clone()), ("ifid2", z8.clone()), ("mtype", json!(0))] {
        o.insert(k.into(), v);
    }
    let if8 = |v: u16| jbytes(&(v as u64).to_be_bytes());
    let (t, body): (&str, Vec<u8>) = match msg {
        ScmpMessage::DestinationUnreachable(x) => {
            o.insert("code".into(), json!(u8::from(x.code)));
            ("du", x.get_offending_packet().to_vec())
        }
        ScmpMessage::PacketTooBig(x) => {
            o.insert("mtu".into(), json!(x.mtu));
            ("ptb", x.get_offending_packet().to_vec())
        }
        ScmpMessage::ParameterProblem(x) => {
            o.insert("code".into(), json!(u8::from(x.code)));
            o.insert("ptr".into(), json!(x.pointer));
            ("pp", x.get_offending_packet().to_vec())
        }
        ScmpMessage::ExternalInterfaceDown(x) => {
            o.insert("ia".into(), jbytes(&x.isd_asn.0.to_be_bytes()));
            o.insert("ifid".into(), if8(x.interface_id));
            ("eid", x.get_offending_packet().to_vec())
        }
        ScmpMessage::InternalConnectivityDown(x) => {
            o.insert("ia".into(), jbytes(&x.isd_asn.0.to_be_bytes()));
            o.insert("ifid".into(), if8(x.ingress_interface_id));
            o.insert("ifid2".into(), if8(x.egress_interface_id));
            ("icd", x.get_offending_packet().to_vec())
        }
        ScmpMessage::EchoRequest(x) => {
            o.insert("id".into(), json!(x.identifier));
            o.insert("seq".into(), json!(x.sequence_number));
            ("ereq", x.data.clone())
        }
        ScmpMessage::EchoReply(x) => {
            o.insert("id".into(), json!(x.identifier));
            o.insert("seq".into(), json!(x.sequence_number));
            ("erep", x.data.clone())
        }
        ScmpMessage::TracerouteRequest(x) => {
            o.insert("id".into(), json!(x.identifier));
            o.insert("seq".into(), json!(x.sequence_number));
            ("treq", vec![])
        }
        ScmpMessage::TracerouteReply(x) => {
            o.insert("id".into(), json!(x.identifier));
            o.insert("seq".into(), json!(x.sequence_number));
            o.insert("ia".into(), jbytes(&x.isd_asn.0.to_be_bytes()));
            o.insert("ifid".into(), if8(x.interface_id));
            ("trep", vec![])
        }
        ScmpMessage::Unknown(x) => {
            o.insert("code".into(), json!(x.code));
            o.insert("mtype".into(), json!(x.message_type));
            ("unk", x.message_specific_data.clone())
        }
    };
    o.insert("t".into(), json!(t));
    body_json(&mut o, &body);
    Value::Object(o)
}
fn header_json(h: &ScionPacketHeader, pl: Value) -> Value {
    json!({
        "tc": h.common.traffic_class, "flow": h.common.flow_id, "nh": u8::from(h.common.next_header),
        "dia": jbytes(&h.address.dst_ia.0.to_be_bytes()), "sia": jbytes(&h.address.src_ia.0.to_be_bytes()),
        "dst": addr_json(&h.address.dst_host_addr), "src": addr_json(&h.address.src_host_addr),
        "path": path_json(&h.path), "pl": pl,
    })
}
fn raw_json(p: &ScionRawPacket) -> Value {
    let mut o = serde_json::Map::new();
    o.insert("k".into(), json!("raw"));
    body_json(&mut o, &p.payload);
    header_json(&p.header, Value::Object(o))
}
fn udp_json(p: &ScionUdpPacket) -> Value {
    let mut o = serde_json::Map::new();
    o.insert("k".into(), json!("udp"));
    o.insert("sp".into(), json!(p.payload.src_port));
    o.insert("dp".into(), json!(p.payload.dst_port));
    body_json(&mut o, &p.payload.payload);
    header_json(&p.header, Value::Object(o))
}
fn scmp_pkt_json(p: &ScionScmpPacket) -> Value {
    header_json(&p.header, scmp_json(&p.payload))
}

// ------------------------------------------------------------------------------------ independent checks on bytes

/// Ones-complement sum over big-endian 16-bit words, written independently of sciparse.
fn oc_sum(acc: u32, data: &[u8]) -> u32 {
    let mut a = acc as u64;
    let mut i = 0;
    while i + 1 < data.len() {
        a += ((data[i] as u64) << 8) | data[i + 1] as u64;
        i += 2;
    }
    if i < data.len() {
        a += (data[i] as u64) << 8;
    }
    while a > 0xffff {
        a = (a & 0xffff) + (a >> 16);
    }
    a as u32
}
fn nib_len(n: u8) -> usize {
    ((n & 3) as usize + 1) * 4
}
/// Verify the upper-layer checksum of an encoded packet over the SCION pseudo-header taken from
/// the packet's own address header.  Returns (verifies, folded sum, sum of pseudo-header only).
fn l4_checksum_verifies(pkt: &[u8], hdr: usize, proto: u8) -> (bool, u32, u32) {
    if pkt.len() < 12 {
        return (false, 0, 0);
    }
    let dl = nib_len(pkt[9] >> 4);
    let sl = nib_len(pkt[9] & 15);
    if pkt.len() < 28 + dl + sl || pkt.len() < hdr {
        return (false, 0, 0);
    }
    let l4 = &pkt[hdr..];
    let mut a = oc_sum(0, &pkt[12..12 + 16 + dl + sl]);
    a = oc_sum(a, &(l4.len() as u32).to_be_bytes());
    a = oc_sum(a, &[0, 0, 0, proto]);
    let pseudo = a;
    a = oc_sum(a, l4);
    (a == 0xffff, a, pseudo)
}

fn region(off: usize, hdr: usize, l4head: usize, dl: usize, sl: usize, std_path: bool) -> String {
    if off < 12 {
        return match off {
            0..=3 => "common.ver_tc_flow",
            4 => "common.next_header",
            5 => "common.hdr_len",
            6 | 7 => "common.payload_len",
            8 => "common.path_type",
            9 => "common.addr_nibbles",
            _ => "common.rsv",
        }
        .into();
    }
    if off < 28 {
        return "addr.isd_as".into();
    }
    if off < 28 + dl + sl {
        return "addr.host".into();
    }
    if off < hdr {
        return if std_path && off < 28 + dl + sl + 4 { "path.meta".into() } else { "path".into() };
    }
    if off < hdr + l4head {
        return format!("l4.header+{}", off - hdr);
    }
    "l4.body".into()
}

// ------------------------------------------------------------------------------------ replay

struct Obs {
    required: Result<usize, String>,
    valid: Result<Result<(), String>, String>,
    to_vec: Result<Result<Vec<u8>, String>, String>,
    /// try_encode into a dirty buffer at every alignment: (alignment, fill, result(bytes written, buffer))
    dirty: Vec<(usize, u8, Result<Result<(usize, Vec<u8>), String>, String>)>,
    owned_view: Result<bool, String>,
}

fn observe<T: PayloadEncode>(p: &ScionPacket<T>, want_owned_view: impl Fn(&ScionPacket<T>) -> Result<bool, String>) -> Obs {
    let required = catch(|| p.required_size());
    let valid = catch(|| p.wire_valid().map_err(|e| e.to_string()));
    let to_vec = catch(|| p.try_encode_to_vec().map_err(|e| e.to_string()));
    let mut dirty = vec![];
    if let Ok(req) = required {
        for al in 0..8usize {
            let fill = if al % 2 == 0 { 0xAAu8 } else { 0x55u8 };
            // 8-aligned backing store; the slice handed to the encoder starts `al` bytes in
            let words = (al + req + 64) / 8 + 2;
            let mut backing: Vec<u64> = vec![u64::from_ne_bytes([fill; 8]); words];
            let r = catch(|| {
                let bytes: &mut [u8] =
                    unsafe { std::slice::from_raw_parts_mut(backing.as_mut_ptr() as *mut u8, words * 8) };
                let end = al + req + 32;
                match p.try_encode(&mut bytes[al..end]) {
                    Ok(n) => Ok((n, bytes[al..end].to_vec())),
                    Err(e) => Err(e.to_string()),
                }
            });
            dirty.push((al, fill, r));
            if req > 4096 && al >= 3 {
                break; // big payloads: 4 alignments (0..3 cover both parities and both 4-byte phases)
            }
        }
    }
    let owned_view = want_owned_view(p);
    Obs { required, valid, to_vec, dirty, owned_view }
}

fn pv(out: &mut Vec<Value>, key: String, what: String) {
    if !out.iter().any(|x| x["key"] == json!(key)) {
        out.push(json!({"key": key, "what": what}));
    }
}

fn unrep_detail(m: &Value, why: &str) -> String {
    let addr = |a: &Value| -> Option<String> {
        if s(&a["k"]) != "unk" {
            return None;
        }
        let (id, len) = (u(&a["id"]), a["b"].as_array().map(|x| x.len()).unwrap_or(0));
        if len == 0 || len % 4 != 0 || len > 16 {
            Some("length".into())
        } else if id > 3 {
            Some("type>3".into())
        } else if (id, len) == (0, 4) || (id, len) == (0, 16) || (id, len) == (1, 4) {
            Some("alias-of-known-type".into())
        } else {
            None
        }
    };
    match why {
        "addr" => addr(&m["dst"]).or_else(|| addr(&m["src"])).unwrap_or_default(),
        "path" => {
            let p = &m["path"];
            if s(&p["k"]) == "uns" {
                if u(&p["t"]) <= 2 { "unsupported-with-supported-type".into() } else { "data-length".into() }
            } else {
                let segs = p["segs"].as_array().map(|x| x.len()).unwrap_or(0);
                if segs == 0 || p["segs"].as_array().unwrap().iter().any(|sg| sg["hops"].as_array().map(|h| h.is_empty()).unwrap_or(true)) {
                    "empty-segment".into()
                } else if u(&p["ci"]) > 3 || u(&p["ch"]) > 63 {
                    "pointer-field".into()
                } else {
                    "segment-length".into()
                }
            }
        }
        _ => String::new(),
    }
}

fn replay_case(case: &Value) -> Value {
    let m = &case["m"];
    let e = &case["e"];
    let rep = e["rep"].as_bool().unwrap_or(false);
    let why = s(&e["why"]).to_string();
    let hdr = u(&e["hdr"]) as usize;
    let blen = u(&e["blen"]) as usize;
    let kind = s(&m["pl"]["k"]).to_string();
    let mut pvs: Vec<Value> = vec![];
    let mut drift: Vec<String> = vec![];

    let built = catch(|| pkt_of(m, None));
    let pkt = match built {
        Ok(p) => p,
        Err(msg) => {
            // the model types themselves refuse the value (e.g. ArrayVec capacity): nothing to encode
            return json!({"built": false, "note": msg, "pv": [], "drift": [], "accepted": false, "rep": rep});
        }
    };
    let obs = match &pkt {
        Pkt::Raw(p) => observe(p, |p| catch(|| p.try_encode_to_owned_view().is_ok())),
        Pkt::Udp(p) => observe(p, |p| catch(|| p.try_encode_to_owned_view().is_ok())),
        Pkt::Scmp(p) => observe(p, |p| catch(|| p.try_encode_to_owned_view().is_ok())),
    };

    // ---- P: no panic anywhere in the encoder API
    if let Err(msg) = &obs.required {
        pv(&mut pvs, "Panic:required_size".into(), format!("required_size panicked: {msg}"));
    }
    if let Err(msg) = &obs.valid {
        pv(&mut pvs, "Panic:wire_valid".into(), format!("wire_valid panicked: {msg}"));
    }
    if let Err(msg) = &obs.to_vec {
        pv(&mut pvs, "Panic:try_encode_to_vec".into(), format!("try_encode_to_vec panicked: {msg}"));
    }
    if let Err(msg) = &obs.owned_view {
        pv(&mut pvs, format!("Panic:try_encode_to_owned_view:{}", if rep { "representable" } else { why.as_str() }),
           format!("try_encode_to_owned_view panicked: {msg}"));
    }
    for (al, _, r) in &obs.dirty {
        if let Err(msg) = r {
            pv(&mut pvs, "Panic:try_encode".into(), format!("try_encode panicked at alignment {al}: {msg}"));
        }
    }

    let valid_ok = matches!(&obs.valid, Ok(Ok(())));
    let vec_ok = matches!(&obs.to_vec, Ok(Ok(_)));
    let any_dirty_ok = obs.dirty.iter().any(|(_, _, r)| matches!(r, Ok(Ok(_))));
    let accepted = valid_ok || vec_ok || any_dirty_ok;

    // ---- conformance of the I-layer (never a violation)
    let iv = e["iv"].as_bool().unwrap_or(false);
    if iv != valid_ok && obs.valid.is_ok() {
        drift.push(format!("wire_valid: spec I-layer says {iv}, sciparse says {valid_ok} ({:?})", obs.valid));
    }
    if rep {
        if let Ok(r) = obs.required {
            if r as u64 != u(&e["size"]) {
                drift.push(format!("required_size {r} != spec size {}", e["size"]));
            }
        }
    }

    // ---- P: a model without a wire form must be rejected by every encoder entry point
    if !rep && accepted {
        let det = unrep_detail(m, &why);
        let key = if det.is_empty() { format!("Unrepresentable:{why}") } else { format!("Unrepresentable:{why}:{det}") };
        let fields = match &obs.to_vec {
            Ok(Ok(b)) if b.len() >= 12 => format!(
                "encoded {} bytes with HdrLen={} PayloadLen={}{}",
                b.len(), b[5], u16::from_be_bytes([b[6], b[7]]),
                if kind == "udp" && b.len() >= hdr + 6 { format!(" UDP Length={}", u16::from_be_bytes([b[hdr + 4], b[hdr + 5]])) } else { String::new() }),
            _ => "accepted".into(),
        };
        pv(&mut pvs, key, format!("model has no wire form ({why}; spec size {} = header {} + payload {}) but the encoder accepted it: {fields}",
                                  e["size"], hdr, u(&e["size"]) as i64 - hdr as i64));
    }

    // ---- everything below concerns accepted, representable models
    let mut enc_sample = None;
    if rep && accepted {
        let head = bytes_of(&e["head"]);
        let mut expect = bytes_of(&e["full"]);
        if expect.is_empty() {
            expect = head.clone();
            expect.extend(pattern(blen, &bytes_of(&m["pl"]["pat"])));
        }
        let l4head = head.len() - hdr;
        let (dl, sl) = (nib_len(expect[9] >> 4), nib_len(expect[9] & 15));
        let proto = match kind.as_str() { "udp" => 17u8, "scmp" => 202u8, _ => 0 };
        let cks_off = if kind == "udp" { Some(hdr + 6) } else if kind == "scmp" { Some(hdr + 2) } else { None };

        let clean: Option<Vec<u8>> = match &obs.to_vec { Ok(Ok(v)) => Some(v.clone()), _ => None };
        let check_bytes = |label: &str, got: &[u8], fill: Option<u8>, pvs: &mut Vec<Value>| {
            // P: announced size
            if got.len() != expect.len() {
                pv(pvs, "AnnouncedSize:differs-from-format".into(),
                   format!("{label}: {} bytes written, the format needs {}", got.len(), expect.len()));
            }
            // P: truthful length fields
            if got.len() >= 12 {
                if got[5] as usize * 4 != hdr {
                    pv(pvs, "LenField:hdr_len".into(), format!("{label}: HdrLen field {} (x4 = {}) but the header is {hdr} bytes", got[5], got[5] as usize * 4));
                }
                let plf = u16::from_be_bytes([got[6], got[7]]) as usize;
                if plf + hdr != got.len() {
                    pv(pvs, "LenField:payload_len".into(), format!("{label}: PayloadLen field {plf} but {} bytes follow the header", got.len() as i64 - hdr as i64));
                }
                if kind == "udp" && got.len() >= hdr + 8 {
                    let ul = u16::from_be_bytes([got[hdr + 4], got[hdr + 5]]) as usize;
                    if ul + hdr != got.len() {
                        pv(pvs, "LenField:udp_length".into(), format!("{label}: UDP Length field {ul} but the datagram has {} bytes", got.len() as i64 - hdr as i64));
                    }
                }
            }
            // P: checksum verifies over the pseudo-header (independent computation on the real bytes)
            let mut cks_bad = false;
            if proto != 0 && got.len() >= hdr + 4 && got.len() >= 28 + dl + sl {
                let (ok, _sum, pseudo) = l4_checksum_verifies(got, hdr, proto);
                if !ok {
                    cks_bad = true;
                    let off = cks_off.unwrap();
                    let field = u16::from_be_bytes([got[off], got[off + 1]]);
                    let only_pseudo = field == !(pseudo as u16);
                    pv(pvs, format!("Checksum:{kind}"),
                       format!("{label}: {kind} checksum field {field:#06x} does not verify over pseudo-header + message ({} payload bytes){}; expected {:#06x}",
                               got.len() - hdr,
                               if only_pseudo { " - it is the checksum of the pseudo-header alone, the message bytes are not summed" } else { "" },
                               u(&e["cks"])));
                }
            }
            // P: read identically by the independent implementation: bytes == spec bytes
            let n = got.len().min(expect.len());
            let mut first: Option<usize> = None;
            let mut stale = true;
            for i in 0..n {
                if got[i] != expect[i] {
                    if let Some(c) = cks_off {
                        if i == c || i == c + 1 {
                            // checksum field: judged by verification only (0x0000 / 0xffff are equivalent)
                            continue;
                        }
                    }
                    if first.is_none() {
                        first = Some(i);
                    }
                    if first == Some(i) {
                        // "unwritten": the zero-initialised encoding agrees with the format here and every
                        // differing bit carries the old value of the caller's buffer
                        stale = match (fill, &clean) {
                            (Some(f), Some(cl)) => cl.get(i) == Some(&expect[i]) && (got[i] ^ expect[i]) & (got[i] ^ f) == 0,
                            _ => false,
                        };
                    }
                }
            }
            let _ = cks_bad;
            if let Some(i) = first {
                let reg = region(i, hdr, l4head, dl, sl, s(&m["path"]["k"]) == "std");
                if fill.is_some() && stale {
                    pv(pvs, format!("UnwrittenBytes:{reg}"),
                       format!("{label}: byte {i} ({reg}) is left as found in the caller's buffer ({:#04x}); the format says {:#04x}", got[i], expect[i]));
                } else {
                    pv(pvs, format!("SpecBytes:{kind}:{reg}"),
                       format!("{label}: byte {i} ({reg}) is {:#04x}, the independent encoder says {:#04x}", got[i], expect[i]));
                }
            }
        };

        if let Ok(Ok(v)) = &obs.to_vec {
            check_bytes("try_encode_to_vec", v, None, &mut pvs);
            if let Ok(r) = obs.required {
                if v.len() != r {
                    pv(&mut pvs, "AnnouncedSize:to_vec".into(), format!("try_encode_to_vec returned {} bytes, required_size() announced {r}", v.len()));
                }
            }
            enc_sample = Some(v.clone());
        }
        for (al, fill, r) in &obs.dirty {
            if let Ok(Ok((n, buf))) = r {
                if let Ok(req) = obs.required {
                    if *n != req {
                        pv(&mut pvs, "AnnouncedSize:try_encode".into(), format!("try_encode wrote {n} bytes, required_size() announced {req}"));
                    }
                }
                let n2 = (*n).min(buf.len());
                if buf[n2..].iter().any(|b| b != fill) {
                    pv(&mut pvs, "AnnouncedSize:wrote-past-end".into(), format!("try_encode modified bytes after the {n} bytes it reported (alignment {al})"));
                }
                check_bytes(&format!("try_encode(dirty buffer {fill:#04x}, alignment {al})"), &buf[..n2], Some(*fill), &mut pvs);
            }
        }
        if let (Ok(Ok(())), Ok(Err(er))) = (&obs.valid, &obs.to_vec) {
            drift.push(format!("wire_valid Ok but try_encode_to_vec Err({er})"));
        }

        // ---- P: decode(bytes) == model
        if let Ok(Ok(v)) = &obs.to_vec {
            let exp_model = catch(|| pkt_of(m, Some(blen))).ok();
            let res: Result<Option<String>, String> = catch(|| match (&exp_model, &pkt) {
                (Some(Pkt::Raw(want)), _) => match ScionRawPacket::try_from_slice(v) {
                    Ok((got, rest)) => diff_pkt(&got.header, &want.header, got.payload == want.payload, rest.len()),
                    Err(er) => Some(format!("decode-failed: {er}")),
                },
                (Some(Pkt::Udp(want)), _) => match ScionUdpPacket::try_from_slice(v) {
                    Ok((got, rest)) => diff_pkt(&got.header, &want.header, got.payload == want.payload, rest.len()),
                    Err(er) => Some(format!("decode-failed: {er}")),
                },
                (Some(Pkt::Scmp(want)), _) => match ScionScmpPacket::try_from_slice(v) {
                    Ok((got, rest)) => diff_pkt(&got.header, &want.header, got.payload == want.payload, rest.len()),
                    Err(er) => Some(format!("decode-failed: {er}")),
                },
                (None, _) => None,
            });
            match res {
                Ok(None) => {}
                Ok(Some(d)) => {
                    let cls = d.split(':').next().unwrap_or("differs").to_string();
                    pv(&mut pvs, format!("RoundTrip:{kind}:{cls}"), format!("decoding the encoder's own output does not give back the model: {d}"));
                }
                Err(msg) => pv(&mut pvs, format!("Panic:decode:{kind}"), format!("decoder panicked on the encoder's own output: {msg}")),
            }
        }
        if let Ok(false) = obs.owned_view {
            if vec_ok {
                drift.push("try_encode_to_owned_view Err while try_encode_to_vec Ok".into());
            }
        }
    }

    // ---- growth (DESIGN.md 6.6), conformance only: reversal of a one-hop path, on the model (upgrade to a
    // standard path) and on the view (in place)
    if s(&m["path"]["k"]) == "onehop" && e.get("rev").is_some() {
        let want_ok = e["rev"]["ok"].as_bool().unwrap_or(false);
        let hdr_model = header_of(m);
        let r = catch(|| {
            let mut p = hdr_model.path.clone();
            p.try_reverse().map(|_| p.try_encode_to_vec().map_err(|x| x.to_string())).map_err(|x| x.to_string())
        });
        match r {
            Err(msg) => pv(&mut pvs, "Panic:onehop-reverse:model".into(), format!("DpPath::try_reverse on a one-hop path panicked: {msg}")),
            Ok(Err(_)) if !want_ok => {}
            Ok(Err(er)) => drift.push(format!("one-hop upgrade: spec says reversible, model says Err({er})")),
            Ok(Ok(_)) if !want_ok => drift.push("one-hop upgrade: spec says the second hop is not set, model reverses".into()),
            Ok(Ok(Ok(b))) => {
                if b != bytes_of(&e["rev"]["std"]) {
                    drift.push("one-hop upgrade: reversed standard path differs from the spec's".into());
                }
            }
            Ok(Ok(Err(er))) => drift.push(format!("one-hop upgrade: reversed path does not encode ({er})")),
        }
        if let DpPath::OneHop(o) = &hdr_model.path {
            use sciparse::core::view::View;
            let r = catch(|| {
                o.try_encode_to_vec().ok().and_then(|b| {
                    let mut b = b;
                    let (v, _) = sciparse::dataplane_path::onehop::view::OneHopPathView::try_from_mut_slice(&mut b).ok()?;
                    let ok = v.try_reverse().is_ok();
                    Some((ok, v.as_slice().to_vec()))
                })
            });
            match r {
                Err(msg) => pv(&mut pvs, "Panic:onehop-reverse:view".into(), format!("OneHopPathView::try_reverse panicked: {msg}")),
                Ok(Some((ok, b))) => {
                    if ok != want_ok {
                        drift.push(format!("one-hop view reverse: spec reversible={want_ok}, view says {ok}"));
                    } else if ok && b != bytes_of(&e["rev"]["inplace"]) {
                        drift.push("one-hop view reverse: bytes differ from the spec's in-place reversal".into());
                    }
                }
                Ok(None) => {}
            }
        }
    }

    // ---- growth: next headers sciparse has no model for (extension headers 43 / 201, TCP, ...) must classify as
    // `Other` carrying the unchanged raw packet (conformance only)
    if let (Pkt::Raw(p), true) = (&pkt, rep) {
        let nh = u(&m["nh"]);
        if nh != 17 && nh != 202 {
            use sciparse::packet::classify::ClassifiedPacket;
            match catch(|| p.clone().try_classify()) {
                Ok(Ok(ClassifiedPacket::Other(q))) if &q == p => {}
                Ok(other) => drift.push(format!("try_classify of a raw packet with next header {nh}: {}", match other { Ok(_) => "not Other / packet changed".to_string(), Err(e) => format!("Err({e})") })),
                Err(msg) => pv(&mut pvs, "Panic:try_classify:raw".into(), format!("try_classify panicked on a raw packet with next header {nh}: {msg}")),
            }
        }
    }

    // ---- the second encoder entry point: into_raw() encodes the payload on its own, the raw packet is
    // then encoded like any other; the bytes must be the same and a model without a wire form must
    // still be rejected on this route
    let via_raw: Option<Result<Result<Vec<u8>, String>, String>> = match &pkt {
        Pkt::Udp(p) => Some(catch(|| p.clone().into_raw().try_encode_to_vec().map_err(|e| e.to_string()))),
        Pkt::Scmp(p) => Some(catch(|| p.clone().into_raw().try_encode_to_vec().map_err(|e| e.to_string()))),
        Pkt::Raw(_) => None,
    };
    match via_raw {
        // a panic while converting a model that has no wire form is a (loud) refusal, not a silent
        // truncation: only representable models must convert without panicking
        Some(Err(msg)) if rep => pv(&mut pvs, "Panic:into_raw:representable".into(), format!("into_raw()/try_encode_to_vec panicked: {msg}")),
        Some(Err(_)) => {}
        Some(Ok(Ok(b))) => {
            // (an "unknown" SCMP model with a known type number becomes a legitimate raw packet: not judged here)
            if !rep && why != "scmptype" {
                pv(&mut pvs, format!("Unrepresentable:{why}:via-into_raw"),
                   format!("model has no wire form ({why}) but into_raw().try_encode_to_vec() produced {} bytes", b.len()));
            } else if let (true, Ok(Ok(v))) = (rep, &obs.to_vec) {
                if &b != v {
                    let i = b.iter().zip(v.iter()).position(|(x, y)| x != y).unwrap_or(b.len().min(v.len()));
                    pv(&mut pvs, format!("IntoRaw:{kind}:differs"), format!("into_raw().try_encode_to_vec() differs from try_encode_to_vec() at byte {i} ({} vs {} bytes)", b.len(), v.len()));
                }
            }
        }
        _ => {}
    }

    json!({
        "built": true, "rep": rep, "accepted": accepted, "valid": valid_ok, "kind": kind,
        "pv": pvs, "drift": drift,
        "enc_len": enc_sample.as_ref().map(|v| v.len()),
        "enc_head": enc_sample.as_ref().map(|v| jbytes(&v[..v.len().min(64)])),
    })
}

fn diff_pkt(got: &ScionPacketHeader, want: &ScionPacketHeader, payload_eq: bool, rest: usize) -> Option<String> {
    if rest != 0 {
        return Some(format!("trailing: {rest} bytes of the encoding are not consumed by the decoder"));
    }
    if got.common != want.common {
        return Some(format!("common: got {:?} want {:?}", got.common, want.common));
    }
    if got.address != want.address {
        return Some(format!("address: got {:?} want {:?}", got.address, want.address));
    }
    if got.path != want.path {
        return Some(format!("path: got {:?} want {:?}", got.path, want.path).chars().take(600).collect());
    }
    if !payload_eq {
        return Some("payload: decoded payload differs from the model's".into());
    }
    None
}

fn replay(inp: &str, outp: &str) {
    let cases = vh_core::read_ndjson(inp);
    let mut w = NdjsonWriter::create(outp);
    for c in &cases {
        if c.get("m").is_none() {
            continue;
        }
        // an output of the code under test that the monitors cannot even index is an observation,
        // never a reason for the harness to abort
        let r = catch(|| replay_case(c)).unwrap_or_else(|msg| {
            json!({"built": true, "rep": c["e"]["rep"], "accepted": true, "valid": false, "kind": c["m"]["pl"]["k"], "drift": [],
                   "pv": [{"key": "MalformedOutput:monitor-could-not-read-encoding", "what": format!("the encoder's output could not be examined: {msg}")}]})
        });
        w.write(&r);
    }
    w.finish();
}

// ------------------------------------------------------------------------------------ record

fn fix_checksum(b: &mut [u8]) {
    // harness-side: make the upper-layer checksum of a (mutated) packet valid again, if the header is sane
    if b.len() < 12 {
        return;
    }
    let hdr = b[5] as usize * 4;
    let (dl, sl) = (nib_len(b[9] >> 4), nib_len(b[9] & 15));
    if hdr < 28 + dl + sl || b.len() < hdr + 8 {
        return;
    }
    let (proto, off) = match b[4] {
        17 => (17u8, hdr + 6),
        202 => (202u8, hdr + 2),
        _ => return,
    };
    b[off] = 0;
    b[off + 1] = 0;
    let (_, sum, _) = l4_checksum_verifies(b, hdr, proto);
    let c = !(sum as u16);
    b[off..off + 2].copy_from_slice(&c.to_be_bytes());
}

fn decode_events(src: &str, bytes: &[u8], w: &mut NdjsonWriter, st: &mut serde_json::Map<String, Value>) {
    let mut bump = |k: &str| {
        let e = st.entry(k.to_string()).or_insert(json!(0));
        *e = json!(e.as_u64().unwrap_or(0) + 1);
    };
    bump("strings");
    let raw = catch(|| ScionRawPacket::try_from_slice(bytes).map(|(p, rest)| (p, rest.len())).map_err(|e| e.to_string()));
    let (p, rest) = match raw {
        Err(msg) => {
            bump("decoder_panics");
            w.write(&json!({"ev": "panic", "level": "raw", "bytes": jbytes(bytes), "msg": msg}));
            return;
        }
        Ok(Err(_)) => {
            bump("rejected");
            return;
        }
        Ok(Ok(x)) => x,
    };
    bump("accepted_raw");
    bump(&format!("accepted_src_{src}"));
    let reenc = catch(|| p.try_encode_to_vec().map_err(|e| e.to_string()));
    w.write(&json!({"ev": "dec", "src": src, "level": "raw", "bytes": jbytes(bytes), "rest": rest, "model": raw_json(&p),
                    "reenc_ok": matches!(&reenc, Ok(Ok(_))),
"reenc": match &reenc { Ok(Ok(v)) => jbytes(v), _ => json!([]) },
"reenc_err": match &reenc { Ok(Ok(_)) => json!(""), Ok(Err(e)) => json!(e), Err(m) => json!(format!("panic: {m}")) }}));
    match p.header.common.next_header {
        ProtocolNumber::Udp => {
            let r = catch(|| ScionUdpPacket::try_from_slice(bytes).map(|(p, rest)| (p, rest.len())).map_err(|e| e.to_string()));
            match r {
                Err(msg) => {
                    bump("decoder_panics");
                    w.write(&json!({"ev": "panic", "level": "udp", "bytes": jbytes(bytes), "msg": msg}));
                }
                Ok(Err(_)) => bump("rejected_udp"),
                Ok(Ok((p, rest))) => {
                    bump("accepted_udp");
                    let reenc = catch(|| p.try_encode_to_vec().map_err(|e| e.to_string()));
                    w.write(&json!({"ev": "dec", "src": src, "level": "udp", "bytes": jbytes(bytes), "rest": rest, "model": udp_json(&p),
                                    "reenc_ok": matches!(&reenc, Ok(Ok(_))),
"reenc": match &reenc { Ok(Ok(v)) => jbytes(v), _ => json!([]) },
"reenc_err": match &reenc { Ok(Ok(_)) => json!(""), Ok(Err(e)) => json!(e), Err(m) => json!(format!("panic: {m}")) }}));
                }
            }
        }
        ProtocolNumber::Scmp => {
            let r = catch(|| ScionScmpPacket::try_from_slice(bytes).map(|(p, rest)| (p, rest.len())).map_err(|e| e.to_string()));
            match r {
                Err(msg) => {
                    bump("decoder_panics");
                    w.write(&json!({"ev": "panic", "level": "scmp", "bytes": jbytes(bytes), "msg": msg}));
                }
                Ok(Err(_)) => bump("rejected_scmp"),
                Ok(Ok((p, rest))) => {
                    bump("accepted_scmp");
                    let reenc = catch(|| p.try_encode_to_vec().map_err(|e| e.to_string()));
                    w.write(&json!({"ev": "dec", "src": src, "level": "scmp", "bytes": jbytes(bytes), "rest": rest, "model": scmp_pkt_json(&p),
                                    "reenc_ok": matches!(&reenc, Ok(Ok(_))),
"reenc": match &reenc { Ok(Ok(v)) => jbytes(v), _ => json!([]) },
"reenc_err": match &reenc { Ok(Ok(_)) => json!(""), Ok(Err(e)) => json!(e), Err(m) => json!(format!("panic: {m}")) }}));
                }
            }
        }
        _ => {}
    }
}

fn record(cases_path: &str, events: &str, results: &str) {
    let mut rng = Rng::from_env();
    let thorough = vh_core::tier_is_thorough();
    let cases = vh_core::read_ndjson(cases_path);
    // corpus: the SPEC's encodings (not sciparse's) of representable models with small bodies
    let corpus: Vec<Vec<u8>> = cases
        .iter()
        .filter(|c| c["e"]["rep"].as_bool() == Some(true))
        .map(|c| bytes_of(&c["e"]["full"]))
        .filter(|b| !b.is_empty() && b.len() <= 1300)
        .collect();
    let mut w = NdjsonWriter::create(events);
    w.write(&json!({"ev": "meta", "spec": "WireFormat", "seed": vh_core::seed_from_env(), "corpus": corpus.len()}));
    let mut st = serde_json::Map::new();
    let budget = if thorough { 60000 } else { 3000 };
    // (a) the corpus itself: canonical by construction, must decode and re-encode to itself
    let mut idx: Vec<usize> = (0..corpus.len()).collect();
    rng.shuffle(&mut idx);
    for &i in idx.iter().take(budget / 4) {
        decode_events("corpus", &corpus[i], &mut w, &mut st);
    }
    // (b) mutations of corpus members (single bit, byte set, field-directed, length edits)
    let mut n = 0;
    while n < budget / 2 && !corpus.is_empty() {
        let mut b = rng.pick(&corpus).clone();
        let muts = 1 + rng.below(2);
        for _ in 0..muts {
            match rng.below(8) {
                0 | 1 => {
                    let i = rng.below(b.len() as u64) as usize;
                    b[i] ^= 1 << rng.below(8);
                }
                2 => {
                    let i = rng.below(b.len() as u64) as usize;
                    b[i] = *rng.pick(&[0u8, 1, 0x7f, 0x80, 0xff]);
                }
                3 => {
                    // header fields that carry lengths / types
                    let i = *rng.pick(&[4usize, 5, 6, 7, 8, 9, 10, 11]);
                    b[i] = rng.below(256) as u8;
                }
                4 => {
                    let hdr = (b[5] as usize * 4).min(b.len() - 1);
                    let i = hdr + rng.below((b.len() - hdr).min(28) as u64) as usize;
                    b[i] = *rng.pick(&[0u8, 1, 2, 4, 5, 6, 128, 129, 130, 131, 0xff, 99]);
                }
                5 => {
                    let k = rng.below(6) as usize;
                    b.truncate(b.len().saturating_sub(k));
                }
                6 => {
                    let k = 1 + rng.below(5) as usize;
                    b.extend(rng.bytes(k));
                }
                _ => {
                    // path meta / info / hop flag bytes
                    if b.len() > 40 {
                        let i = 28 + rng.below((b.len() - 28).min(60) as u64) as usize;
                        b[i] = rng.below(256) as u8;
                    }
                }
            }
            if b.is_empty() {
                b.push(0);
            }
        }
        if rng.chance(1, 2) {
            fix_checksum(&mut b);
        }
        decode_events("mutated", &b, &mut w, &mut st);
        n += 1;
    }
    // (c) shaped random strings: consistent length fields, random everything else
    let mut n = 0;
    while n < budget / 4 {
        let dn = rng.below(16) as u8;
        let sn = rng.below(16) as u8;
        let (dl, sl) = (nib_len(dn), nib_len(sn));
        let pt = *rng.pick(&[0u8, 1, 1, 1, 2, 3, 200]);
        let path: Vec<u8> = match pt {
            0 => vec![],
            1 => {
                let (s0, s1, s2) = (1 + rng.below(3), rng.below(3), rng.below(2));
                let s2 = if s1 == 0 { 0 } else { s2 };
                let nseg = 1 + (s1 > 0) as u64 + (s2 > 0) as u64;
                let nhop = s0 + s1 + s2;
                let v = (s0 << 12) | (s1 << 6) | s2;
                let mut p = vec![((rng.below(nseg) << 6) | rng.below(nhop)) as u8, (v >> 16) as u8, (v >> 8) as u8, v as u8];
                for _ in 0..nseg {
                    let mut i = rng.bytes(8);
                    i[0] &= if rng.chance(7, 8) { 3 } else { 0xff };
                    i[1] = if rng.chance(7, 8) { 0 } else { i[1] };
                    p.extend(i);
                }
                for _ in 0..nhop {
                    let mut h = rng.bytes(12);
                    h[0] &= if rng.chance(7, 8) { 3 } else { 0xff };
                    p.extend(h);
                }
                p
            }
            2 => {
                let mut p = rng.bytes(32);
                p[0] &= 3;
                p[1] = 0;
                p[8] &= 3;
                p[20] &= 3;
                p
            }
            _ => {
                let k = 4 * rng.below(4) as usize;
                rng.bytes(k)
            }
        };
        let hdr = 28 + dl + sl + path.len();
        let nh = *rng.pick(&[17u8, 17, 202, 202, 202, 6]);
        let l4: Vec<u8> = match nh {
            17 => {
                let k = rng.below(24) as usize;
                let body = rng.bytes(k);
                let mut d = rng.bytes(4);
                d.extend(((8 + body.len()) as u16).to_be_bytes());
                d.extend([0, 0]);
                d.extend(body);
                d
            }
            202 => {
                let t = *rng.pick(&[1u8, 2, 4, 5, 6, 128, 129, 130, 131, 7, 200]);
                let fixed = match t { 5 => 20, 6 => 28, 130 | 131 => 24, 1 | 2 | 4 | 128 | 129 => 8, _ => 4 + 4 * rng.below(2) as usize };
                let mut d = vec![t, if matches!(t, 1 | 4) || t == 7 || t == 200 { rng.below(8) as u8 } else { 0 }, 0, 0];
                let mut rest = rng.bytes(fixed - 4);
                match t {
                    1 => rest[..4].fill(0),
                    2 | 4 => rest[..2].fill(0),
                    5 | 6 | 131 if rng.chance(3, 4) => {
                        // interface ids that fit 16 bits (the common case on real networks)
                        let base = if t == 131 { 12 } else { 8 };
                        rest[base..base + 6].fill(0);
                        if t == 6 {
                            rest[16..22].fill(0);
                        }
                    }
                    130 => rest[4..].fill(0),
                    _ => {}
                }
                d.extend(rest);
                if !matches!(t, 130 | 131) {
                    let k = rng.below(20) as usize;
                    d.extend(rng.bytes(k));
                }
                d
            }
            _ => {
                let k = rng.below(16) as usize;
                rng.bytes(k)
            }
        };
        let mut b = vec![rng.below(16) as u8, rng.below(256) as u8, rng.below(256) as u8, rng.below(256) as u8, nh, (hdr / 4) as u8];
        b.extend((l4.len() as u16).to_be_bytes());
        b.extend([pt, (dn << 4) | sn, 0, 0]);
        b.extend(rng.bytes(16));
        let mut da = rng.bytes(dl);
        if dn == 4 {
            da[2] = 0;
            da[3] = 0;
        }
        let mut sa = rng.bytes(sl);
        if sn == 4 {
            sa[2] = 0;
            sa[3] = 0;
        }
        b.extend(da);
        b.extend(sa);
        b.extend(path);
        b.extend(l4);
        if hdr <= 1020 {
            fix_checksum(&mut b);
            decode_events("shaped", &b, &mut w, &mut st);
            n += 1;
        }
    }
    // (d) plain random strings
    for _ in 0..budget / 8 {
        let len = rng.below(120) as usize;
        let mut b = rng.bytes(len);
        if !b.is_empty() && rng.chance(3, 4) {
            b[0] &= 0x0f;
        }
        decode_events("random", &b, &mut w, &mut st);
    }
    w.finish();
    std::fs::write(results, serde_json::to_string(&Value::Object(st)).unwrap()).expect("write results");
}

fn main() {
    vh_core::quiet_panics();
    let a: Vec<String> = std::env::args().collect();
    match a.get(1).map(|x| x.as_str()) {
        Some("replay") if a.len() == 4 => replay(&a[2], &a[3]),
        Some("record") if a.len() == 5 => record(&a[2], &a[3], &a[4]),
        _ => {
            eprintln!("usage: wireformat replay <cases.ndjson> <out.ndjson> | record <cases.ndjson> <events.ndjson> <results.json>");
            std::process::exit(2);
        }
    }
}
