fn main() {}
